-------------------------------- MODULE GoCore --------------------------------
(* Sequential core of Go as an executable specification.                       *)
(*                                                                             *)
(* A PROGRAM is an abstract syntax tree (records); Run(prog) is its meaning:   *)
(* the lines it prints and the way it ends ("ok", or "panic" with the value,   *)
(* raised after the printed prefix).  The semantics is big-step and state      *)
(* passing: variables are CELLS, so closures share the variables they capture, *)
(* loop variables are per-iteration cells (Go 1.22), `:=` makes a new cell.    *)
(* Deferred calls, panics, recover, run-time faults follow the Go spec; the    *)
(* evaluator logs registration and execution of every deferred call so that    *)
(* the defer properties of C06 are state predicates over the result.           *)
(*                                                                             *)
(* The module is a generator + oracle (DESIGN 2.1 G): TLC enumerates program   *)
(* families exhaustively / draws random programs, computes Run, checks the     *)
(* model-level properties and hands (program, prediction) to the harness,      *)
(* which renders the program as Go source and runs it in the interpreter.      *)
(* Consumers: C01 (whole programs), C06 (defer/panic families), C11 (the same  *)
(* programs cut into chunks), C12 (mutated), C19 (under the debugger).         *)
EXTENDS Integers, Sequences, FiniteSets, TLC, Json, Randomization

Lim  == 100000000      \* values beyond this make the program "out of range" (not emitted)
Fuel == 400            \* executed statements; beyond: "fuel" (not emitted)

GoRem(a, m) == IF a >= 0 THEN a % m ELSE -((-a) % m)
Last(s) == s[Len(s)]
Front(s) == SubSeq(s, 1, Len(s) - 1)

-------------------------------------------------------------------------------
(* State.  cells: Seq of values (ints, closures, sequences of closures).       *)
(* status: "ok" | "panic" | "oor" | "fuel".  pval: value of the current panic. *)
(* dstk: stack (one entry per activation) of deferred-call lists, last         *)
(* registered first; astk: the activations' identifiers (na: counter).         *)
(* ev: log of defer events.  nd: defer id counter.                             *)
(* recd: set by a successful recover, read by the unwinding step.              *)
(* tr: trace of the identified print statements executed (<<"p", id>>) and of   *)
(* the calls of f (<<"c">>), in execution order: what a debugger with line and  *)
(* function breakpoints is expected to report (C19).                            *)
St0 == [cells |-> <<1, 2, 3, 4, 5, 6>>, out |-> <<>>, status |-> "ok", pval |-> 0,
        dstk |-> <<>>, astk |-> <<>>, na |-> 0, ev |-> <<>>, nd |-> 0, recd |-> FALSE,
        fuel |-> Fuel, depth |-> 0, tr |-> <<>>]

\* globals live in the first cells: g0 g1 (ints), t.a t.b (struct t), arr[0] arr[1]
Env0 == [g0 |-> 1, g1 |-> 2, ta |-> 3, tb |-> 4, a0 |-> 5, a1 |-> 6]

Alloc(st, v)    == [st EXCEPT !.cells = Append(@, v)]
NewId(st)       == Len(st.cells) + 1
Store(st, c, v) == [st EXCEPT !.cells[c] = v]
Bind(env, x, c) == [y \in (DOMAIN env) \cup {x} |-> IF y = x THEN c ELSE env[y]]
Emit1(st, line) == [st EXCEPT !.out = Append(@, line)]
Panic(st, v)    == [st EXCEPT !.status = "panic", !.pval = v]
Ok(st)          == st.status = "ok"
Chk(st, v)      == IF v > Lim \/ v < -Lim THEN [st EXCEPT !.status = "oor"] ELSE st

Next_ == [k |-> "next", lab |-> ""]

\* maps: a map variable holds [mp |-> c], c the cell of the map object (0: nil map); the
\* object is [pres |-> set of keys, val |-> [0..3 -> Int]]; keys are taken modulo 4
MapKeys == 0..3
EmptyMap == [pres |-> {}, val |-> [k \in MapKeys |-> 0]]
MapGet(st, mv, k) == IF mv.mp = 0 \/ k \notin st.cells[mv.mp].pres THEN 0 ELSE st.cells[mv.mp].val[k]
MapLen(st, mv)    == IF mv.mp = 0 THEN 0 ELSE Cardinality(st.cells[mv.mp].pres)
MapPut(st, mv, k, v) == Store(st, mv.mp, [pres |-> st.cells[mv.mp].pres \cup {k}, val |-> [st.cells[mv.mp].val EXCEPT ![k] = v]])

\* strings: a string value is the sequence of its character codes ('a' = 97 ...)
MaxStr == 10
Chr(c) == CASE c = 97 -> "a" [] c = 98 -> "b" [] c = 99 -> "c" [] OTHER -> "?"
RECURSIVE StrOf(_), StrLess(_, _)
StrOf(cs) == IF cs = <<>> THEN "" ELSE Chr(Head(cs)) \o StrOf(Tail(cs))
StrLess(a, b) == IF b = <<>> THEN FALSE ELSE IF a = <<>> THEN TRUE
                 ELSE IF Head(a) # Head(b) THEN Head(a) < Head(b) ELSE StrLess(Tail(a), Tail(b))
\* string expression (pure): literal, variable, concatenation
RECURSIVE EvalStr(_, _, _)
EvalStr(e, env, st) ==
    CASE e.k = "slit" -> e.cs
      [] e.k = "sv"   -> st.cells[env[e.s]].str
      [] e.k = "scat" -> EvalStr(e.l, env, st) \o EvalStr(e.r, env, st)

\* struct variables: the global t lives in cells 3 and 4, a local struct in two consecutive cells
SBase(name, env) == IF name = "t" THEN 3 ELSE env[name]

\* what the body of a loop iteration means for the loop labelled lab: leave it (with
\* which control state) or go on with the next iteration
LoopExit(b, lab) ==
    IF b.st.status # "ok" THEN [exit |-> TRUE, ctl |-> Next_]
    ELSE IF b.ctl.k \in {"ret", "goto"} THEN [exit |-> TRUE, ctl |-> b.ctl]
    ELSE IF b.ctl.k = "brk" THEN [exit |-> TRUE, ctl |-> IF b.ctl.lab \in {"", lab} THEN Next_ ELSE b.ctl]
    ELSE IF b.ctl.k = "cont" /\ b.ctl.lab \notin {"", lab} THEN [exit |-> TRUE, ctl |-> b.ctl]
    ELSE [exit |-> FALSE, ctl |-> Next_]

-------------------------------------------------------------------------------
(* Semantics.  P is the program (function table); it is a parameter of every   *)
(* operator because closures and calls need the function bodies.               *)
RECURSIVE EvalE(_, _, _, _), EvalArgs(_, _, _, _), ExecS(_, _, _, _, _), ExecB(_, _, _, _, _),
          CallFn(_, _, _, _), CallClo(_, _, _, _), CallCloD(_, _, _, _, _, _), RunBody(_, _, _, _, _), RunDefers(_, _, _),
          Loop3(_, _, _, _, _, _), Cases(_, _, _, _, _, _, _), CallAll(_, _, _, _)

\* expression evaluation: [v, st]
EvalE(P, e, env, st) ==
    IF ~Ok(st) THEN [v |-> 0, st |-> st] ELSE
    CASE e.k = "lit" -> [v |-> e.v, st |-> st]
      [] e.k = "var" -> [v |-> st.cells[env[e.x]], st |-> st]
      [] e.k = "fld" -> [v |-> st.cells[IF e.f = "a" THEN Env0.ta ELSE Env0.tb], st |-> st]
      [] e.k = "idx" ->
            LET i == EvalE(P, e.i, env, st) IN
            IF ~Ok(i.st) THEN i ELSE
            [v |-> i.st.cells[IF i.v % 2 = 0 THEN Env0.a0 ELSE Env0.a1], st |-> i.st]
      [] e.k = "sl" ->        \* s[i] : the backing array is a cell shared by every copy of the slice
            [v |-> st.cells[st.cells[env[e.s]].back][e.ix + 1], st |-> st]
      [] e.k = "deref" -> [v |-> st.cells[st.cells[env[e.p]].ptr], st |-> st]      \* *p
      [] e.k = "vcall" ->     \* vsum(e1, ..., en) : 100 * n + the sum of the arguments
            LET a == EvalArgs(P, e.args, env, st)
                RECURSIVE Sum(_)
                Sum(q) == IF q = <<>> THEN 0 ELSE Head(q) + Sum(Tail(q))
                v == 100 * Len(a.vs) + Sum(a.vs)
            IN IF ~Ok(a.st) THEN [v |-> 0, st |-> a.st] ELSE [v |-> v, st |-> Chk(a.st, v)]
      [] e.k = "vspread" ->   \* vsum(s...) : the slice itself is passed
            LET b == st.cells[st.cells[env[e.s]].back]
                v == 300 + b[1] + b[2] + b[3]
            IN [v |-> v, st |-> Chk(st, v)]
      [] e.k = "fvcall" ->    \* h(e) where the variable h holds the function g
            LET a == EvalArgs(P, e.args, env, st) IN
            IF ~Ok(a.st) THEN [v |-> 0, st |-> a.st] ELSE
            LET c == CallFn(P, "g", a.vs, a.st) IN [v |-> c.vs[1], st |-> c.st]
      [] e.k = "chlen" -> [v |-> Len(st.cells[st.cells[env[e.s]].ch].buf), st |-> st]
      [] e.k = "cvar" -> [v |-> e.v, st |-> st]       \* a local constant: its value is part of the node
      [] e.k = "ufld" -> [v |-> st.cells[SBase(e.s, env) + (IF e.f = "a" THEN 0 ELSE 1)], st |-> st]      \* u.f
      [] e.k = "qfld" -> [v |-> st.cells[st.cells[env[e.p]].ptr + (IF e.f = "a" THEN 0 ELSE 1)], st |-> st] \* q.f, q a *T
      [] e.k = "usum" ->      \* u.sum() : value receiver, a*3 + b
            LET b == IF e.via = "ptr" THEN st.cells[env[e.s]].ptr ELSE SBase(e.s, env)
                v == st.cells[b] * 3 + st.cells[b + 1]
            IN [v |-> v, st |-> Chk(st, v)]
      [] e.k = "utag" ->      \* u.tag(d) / u.ptag(d) : methods whose receiver is UNNAMED (func (T) tag, func (*T) ptag):
                              \* the receiver is evaluated and dropped, the result depends on the argument alone
            LET a == EvalE(P, e.e, env, st) IN
            IF ~Ok(a.st) THEN a
            ELSE LET v == IF e.m = "tag" THEN a.v * 2 + 1 ELSE a.v + 7 IN [v |-> v, st |-> Chk(a.st, v)]
      [] e.k = "bvar" -> [v |-> st.cells[env[e.s]], st |-> st]
      [] e.k = "isnil" ->     \* x == nil | x != nil | nil == x | nil != x  for an interface, map or pointer variable x
            LET c   == st.cells[env[e.s]]
                isn == CASE e.sort = "if" -> c.dyn = "nil" [] e.sort = "map" -> c.mp = 0 [] OTHER -> FALSE
            IN [v |-> IF e.op = "eq" THEN isn ELSE ~isn, st |-> st]
      [] e.k = "ucmp" ->      \* u == v  /  u != v  on struct values
            LET a == SBase(e.s, env)
                b == SBase(e.from, env)
                same == st.cells[a] = st.cells[b] /\ st.cells[a + 1] = st.cells[b + 1]
            IN [v |-> IF e.op = "eq" THEN same ELSE ~same, st |-> st]
      [] e.k = "mget" ->      \* m[k] : zero when the key is absent or the map is nil
            LET i == EvalE(P, e.i, env, st) IN
            IF ~Ok(i.st) THEN i ELSE [v |-> MapGet(i.st, i.st.cells[env[e.s]], i.v % 4), st |-> i.st]
      [] e.k = "mlen" -> [v |-> MapLen(st, st.cells[env[e.s]]), st |-> st]
      [] e.k = "slen" -> [v |-> Len(st.cells[env[e.s]].str), st |-> st]
      [] e.k = "scmp" ->      \* comparison of two strings
            LET a == EvalStr(e.l, env, st)
                b == EvalStr(e.r, env, st)
            IN [v |-> CASE e.op = "eq" -> a = b [] e.op = "ne" -> a # b [] e.op = "lt" -> StrLess(a, b), st |-> st]
      [] e.k = "bin" ->
            LET l == EvalE(P, e.l, env, st)
                r == EvalE(P, e.r, env, l.st)
                v == CASE e.op = "add" -> l.v + r.v
                       [] e.op = "sub" -> l.v - r.v
                       [] e.op = "mul" -> GoRem(l.v, 97) * GoRem(r.v, 97)
            IN IF ~Ok(r.st) THEN [v |-> 0, st |-> r.st] ELSE [v |-> v, st |-> Chk(r.st, v)]
      [] e.k = "div" ->      \* integer division by a run-time value: fault when zero
            LET l == EvalE(P, e.l, env, st)
                r == EvalE(P, e.r, env, l.st)
            IN IF ~Ok(r.st) THEN [v |-> 0, st |-> r.st]
               ELSE IF r.v = 0 THEN [v |-> 0, st |-> Panic(r.st, "fault")]
               ELSE [v |-> (IF (l.v >= 0) = (r.v > 0) THEN 1 ELSE -1) *
                            ((IF l.v >= 0 THEN l.v ELSE -l.v) \div (IF r.v > 0 THEN r.v ELSE -r.v)), st |-> r.st]
      [] e.k = "call" ->
            LET a == EvalArgs(P, e.args, env, st) IN
            IF ~Ok(a.st) THEN [v |-> 0, st |-> a.st] ELSE
            LET c == CallFn(P, e.f, a.vs, a.st) IN [v |-> c.vs[1], st |-> c.st]
      [] e.k = "clo" ->
            LET a == EvalArgs(P, e.args, env, st) IN
            IF ~Ok(a.st) THEN [v |-> 0, st |-> a.st] ELSE
            LET c == CallClo(P, a.st.cells[env[e.c]], a.vs, a.st) IN [v |-> c.vs[1], st |-> c.st]
      [] e.k = "cmp" ->
            LET l == EvalE(P, e.l, env, st)
                r == EvalE(P, e.r, env, l.st)
                v == CASE e.op = "lt" -> l.v < r.v [] e.op = "le" -> l.v <= r.v
                       [] e.op = "eq" -> l.v = r.v [] e.op = "ne" -> l.v # r.v
            IN [v |-> v, st |-> r.st]
      [] e.k = "and" ->
            LET l == EvalE(P, e.l, env, st) IN
            IF ~Ok(l.st) \/ ~l.v THEN [v |-> FALSE, st |-> l.st] ELSE EvalE(P, e.r, env, l.st)
      [] e.k = "or" ->
            LET l == EvalE(P, e.l, env, st) IN
            IF ~Ok(l.st) THEN [v |-> FALSE, st |-> l.st]
            ELSE IF l.v THEN [v |-> TRUE, st |-> l.st] ELSE EvalE(P, e.r, env, l.st)
      [] e.k = "not" ->
            LET x == EvalE(P, e.x, env, st) IN
            IF ~Ok(x.st) THEN [v |-> FALSE, st |-> x.st] ELSE [v |-> ~x.v, st |-> x.st]

\* arguments left to right: [vs, st]
EvalArgs(P, es, env, st) ==
    IF es = <<>> THEN [vs |-> <<>>, st |-> st] ELSE
    LET h == EvalE(P, Head(es), env, st)
        t == EvalArgs(P, Tail(es), env, h.st)
    IN [vs |-> <<h.v>> \o t.vs, st |-> t.st]

\* the value stored in an interface variable by  var e interface{} = X  /  e = X :
\* an int expression, a string expression, a COPY of a struct variable, or nil
IfaceVal(P, s, env, st) ==
    CASE s.form = "int" -> LET v == EvalE(P, s.e, env, st) IN [v |-> [dyn |-> "int", v |-> v.v], st |-> v.st]
      [] s.form = "str" -> [v |-> [dyn |-> "str", v |-> EvalStr(s.src, env, st)], st |-> st]
      [] s.form = "T"   -> LET b == SBase(s.from, env) IN [v |-> [dyn |-> "T", v |-> <<st.cells[b], st.cells[b + 1]>>], st |-> st]
      [] s.form = "nil" -> [v |-> [dyn |-> "nil", v |-> 0], st |-> st]

(* run deferred calls of the activation that is ending: ds last-registered      *)
(* first.  A deferred call invoked while panicking may recover (direct = TRUE). *)
RunDefers(P, ds, st) ==
    IF ds = <<>> \/ st.status \in {"oor", "fuel"} THEN st ELSE
    LET d == Head(ds)
        panicking == st.status = "panic"
        saved == st.pval
        st1 == [st EXCEPT !.status = "ok", !.recd = FALSE,
                          !.ev = Append(@, [t |-> "run", id |-> d.id, depth |-> st.depth])]
        r == IF d.k = "lit"
             THEN RunBody(P, d.body, d.env, st1, [direct |-> panicking, ret |-> "$none", pv |-> saved]).st
             ELSE IF d.k = "print"
             THEN Emit1(st1, <<"d", d.vs[1]>>)
             ELSE IF d.k = "method"      \* t.bump(v) with the receiver's address fixed at the defer statement
             THEN LET n == st1.cells[d.base] + d.vs[1] IN Chk(Store(st1, d.base, n), n)
             ELSE IF d.k = "clo"         \* c() with the function value fixed at the defer statement
             THEN CallCloD(P, d.c, <<>>, st1, panicking, saved).st
             ELSE IF d.k = "relp"        \* relp(p) : the POINTER is fixed at the defer statement, the pointee is read now
             THEN Emit1(st1, <<"d", st1.cells[d.ref.ptr]>>)
             ELSE IF d.k = "relq"
             THEN Emit1(st1, <<"d", st1.cells[d.ref.ptr], st1.cells[d.ref.ptr + 1]>>)
             ELSE IF d.k = "rels"        \* rels(s) : the slice header is fixed, the elements are read now
             THEN LET b == st1.cells[d.ref.back] IN Emit1(st1, <<"d", b[1], b[2], b[3]>>)
             ELSE IF d.k = "relm"        \* relm(m) : the map is fixed, its content is read now
             THEN Emit1(st1, <<"d", MapLen(st1, d.ref), MapGet(st1, d.ref, 0)>>)
             ELSE IF d.k = "nilfn"       \* var hn func(); defer hn() : the deferred call of a nil function value faults WHEN THE
                                         \* CALL IS MADE (the function ends), not when the defer statement is executed
             THEN Panic(st1, "fault")
             ELSE IF d.k = "mdel"        \* delete(m, k) with map and key fixed at the defer statement
             THEN (IF d.mv.mp = 0 THEN st1 ELSE Store(st1, d.mv.mp, [st1.cells[d.mv.mp] EXCEPT !.pres = @ \ {d.key}]))
             ELSE CallFn(P, d.f, d.vs, st1).st
        st2 == IF r.status = "ok"
               THEN IF panicking /\ ~r.recd THEN [r EXCEPT !.status = "panic", !.pval = saved] ELSE r
               ELSE r      \* a new panic raised by the deferred call replaces the old one
    IN RunDefers(P, Tail(ds), [st2 EXCEPT !.recd = FALSE])

(* execute the body of a function / literal as one activation: push a defer     *)
(* list, run the block, run the deferred calls, pop.  [st, ctl]                 *)
RunBody(P, body, env, st, ctx) ==
    IF st.depth > 6 THEN [st |-> [st EXCEPT !.status = "fuel"], ctl |-> Next_] ELSE
    LET st1 == [st EXCEPT !.dstk = Append(@, <<>>), !.astk = Append(@, st.na + 1), !.na = @ + 1, !.depth = @ + 1]
        b   == ExecB(P, body, env, st1, ctx)
        ds  == Last(b.st.dstk)
        st2 == RunDefers(P, ds, [b.st EXCEPT !.dstk = Front(@), !.astk = Front(@)])
    \* recd tells the caller (the unwinding step that invoked this body as a deferred
    \* call) whether THIS body recovered; what its own deferred calls did is their affair
    IN [st |-> [st2 EXCEPT !.depth = st.depth, !.recd = b.st.recd], ctl |-> b.ctl]

(* call of a declared function: new cells for the parameter and the results.    *)
(* [vs, st] - the results are read AFTER the deferred calls have run.           *)
CallFn(P, f, args, st) ==
    LET F    == P.funcs[f]
        pc   == NewId(st)
        st0  == IF f = "f" THEN [st EXCEPT !.tr = Append(@, <<"c">>)] ELSE st
        st1  == Alloc(Alloc(Alloc(st0, args[1]), 0), 0)      \* p, r, q
        env  == Bind(Bind(Bind(Env0, "p", pc), "r", pc + 1), "q", pc + 2)
        b    == RunBody(P, F.body, env, st1, [direct |-> FALSE, ret |-> "r", pv |-> 0])
    IN [vs |-> <<b.st.cells[pc + 1], b.st.cells[pc + 2]>>, st |-> b.st]

\* call of a function literal value: its own environment, one hidden result cell
\* direct: the literal is the function a deferred call invoked while panicking (defer c()): a
\* recover() in ITS body stops the panic pv; called in any other way it is an ordinary function
CallCloD(P, c, args, st, direct, pv) ==
    LET rc  == NewId(st)
        st1 == IF c.par THEN Alloc(Alloc(st, 0), args[1]) ELSE Alloc(st, 0)
        env == IF c.par THEN Bind(Bind(c.env, "$ret", rc), "a", rc + 1) ELSE Bind(c.env, "$ret", rc)
        b   == RunBody(P, c.body, env, st1, [direct |-> direct, ret |-> "$ret", pv |-> pv])
    IN [vs |-> <<b.st.cells[rc]>>, st |-> b.st]
CallClo(P, c, args, st) == CallCloD(P, c, args, st, FALSE, 0)

\* call every closure of a sequence, printing each result
CallAll(P, fs, i, st) ==
    IF i > Len(fs) \/ ~Ok(st) THEN st ELSE
    LET c == CallClo(P, fs[i], <<>>, st) IN
    CallAll(P, fs, i + 1, IF Ok(c.st) THEN Emit1(c.st, <<"f", c.vs[1]>>) ELSE c.st)

\* block: [env, st, ctl]; definitions are visible to the end of the block only
ExecB(P, b, env, st, ctx) ==
    IF b = <<>> \/ ~Ok(st) THEN [env |-> env, st |-> st, ctl |-> Next_] ELSE
    LET h == ExecS(P, Head(b), env, st, ctx) IN
    IF ~Ok(h.st) \/ h.ctl.k # "next" THEN [env |-> env, st |-> h.st, ctl |-> h.ctl]
    ELSE LET t == ExecB(P, Tail(b), h.env, h.st, ctx) IN [env |-> env, st |-> t.st, ctl |-> t.ctl]

\* three-clause loop  for v := 0; v < n; v++ { body }  with a fresh v per iteration
Loop3(P, s, env, st, ctx, vc) ==
    IF ~Ok(st) THEN [st |-> st, ctl |-> Next_] ELSE
    IF ~(st.cells[vc] < s.n) THEN [st |-> st, ctl |-> Next_] ELSE
    LET b == ExecB(P, s.body, Bind(env, s.v, vc), st, ctx)
        x == LoopExit(b, s.lab)
    IN IF x.exit THEN [st |-> b.st, ctl |-> x.ctl]
       ELSE \* next iteration: copy the variable into a new cell, then the post statement
        LET nc  == NewId(b.st)
            st1 == Alloc(b.st, b.st.cells[vc] + 1)
        IN Loop3(P, s, env, st1, ctx, nc)

\* expression switch.  The clauses in source order: the default clause stands before case
\* dpos + 1 (dpos = number of cases: last); a case lists the values v and w (w = v: one value).  The first case holding the tag value is chosen,
\* the default clause when none does; fallthrough runs the next clause IN SOURCE ORDER.
Clauses(s) ==
    [i \in 1..(Len(s.cases) + 1) |->
        IF i = s.dpos + 1 THEN [def |-> TRUE, v |-> 0, w |-> 0, body |-> s.dflt, fall |-> s.dfall]
        ELSE LET c == s.cases[IF i <= s.dpos THEN i ELSE i - 1] IN [def |-> FALSE, v |-> c.v, w |-> c.w, body |-> c.body, fall |-> c.fall]]
Cases(P, cs, i, tag, env, st, ctx) ==
    LET hit == {j \in 1..Len(cs) : ~cs[j].def /\ tag \in {cs[j].v, cs[j].w}}
        first == IF hit # {} THEN CHOOSE j \in hit : \A k \in hit : j <= k
                 ELSE CHOOSE j \in 1..Len(cs) : cs[j].def
        RECURSIVE Run(_, _)
        Run(j, s) ==
          LET b == ExecB(P, cs[j].body, env, s, ctx) IN
          IF Ok(b.st) /\ b.ctl.k = "next" /\ cs[j].fall /\ j < Len(cs) THEN Run(j + 1, b.st)
          ELSE [st |-> b.st, ctl |-> b.ctl, hit |-> TRUE]
    IN Run(first, st)

\* statement: [env, st, ctl]
ExecS(P, s, env, st0, ctx) ==
    IF st0.fuel = 0 THEN [env |-> env, st |-> [st0 EXCEPT !.status = "fuel"], ctl |-> Next_] ELSE
    LET st == [st0 EXCEPT !.fuel = @ - 1]
        R(e2, s2) == [env |-> e2, st |-> s2, ctl |-> Next_]
    IN
    CASE s.k = "asg" ->       \* x = e
            LET v == EvalE(P, s.e, env, st) IN
            R(env, IF Ok(v.st) THEN Store(v.st, env[s.x], v.v) ELSE v.st)
      [] s.k = "def" ->       \* x := e   (new variable)
            LET v == EvalE(P, s.e, env, st) IN
            IF ~Ok(v.st) THEN R(env, v.st) ELSE R(Bind(env, s.x, NewId(v.st)), Alloc(v.st, v.v))
      [] s.k = "opasg" ->     \* x op= e : the operand is evaluated, then x is read
            LET v == EvalE(P, s.e, env, st)
                o == v.st.cells[env[s.x]]
                n == CASE s.op = "add" -> o + v.v [] s.op = "sub" -> o - v.v
            IN R(env, IF Ok(v.st) THEN Chk(Store(v.st, env[s.x], n), n) ELSE v.st)
      [] s.k = "inc" -> R(env, Store(st, env[s.x], st.cells[env[s.x]] + s.d))
      [] s.k = "asg2" ->      \* x, y = two(e)
            LET a == EvalE(P, s.e, env, st) IN
            IF ~Ok(a.st) THEN R(env, a.st) ELSE
            LET c == CallFn(P, "two", <<a.v>>, a.st) IN
            R(env, IF Ok(c.st) THEN Store(Store(c.st, env[s.x], c.vs[1]), env[s.y], c.vs[2]) ELSE c.st)
      [] s.k = "swap" ->      \* x, y = y, x
            R(env, Store(Store(st, env[s.x], st.cells[env[s.y]]), env[s.y], st.cells[env[s.x]]))
      [] s.k = "fset" ->      \* t.f = e
            LET v == EvalE(P, s.e, env, st) IN
            R(env, IF Ok(v.st) THEN Store(v.st, IF s.f = "a" THEN Env0.ta ELSE Env0.tb, v.v) ELSE v.st)
      [] s.k = "tlit" ->      \* t = T{ea, eb} : both evaluated before t changes
            LET a == EvalE(P, s.a, env, st)
                b == EvalE(P, s.b, env, a.st)
            IN R(env, IF Ok(b.st) THEN Store(Store(b.st, Env0.ta, a.v), Env0.tb, b.v) ELSE b.st)
      [] s.k = "iset" ->      \* arr[i] = e : index, then value
            LET i == EvalE(P, s.i, env, st)
                v == EvalE(P, s.e, env, i.st)
            IN R(env, IF Ok(v.st) THEN Store(v.st, IF i.v % 2 = 0 THEN Env0.a0 ELSE Env0.a1, v.v) ELSE v.st)
      [] s.k = "iop" ->       \* arr[i] += e
            LET i == EvalE(P, s.i, env, st)
                v == EvalE(P, s.e, env, i.st)
                c == IF i.v % 2 = 0 THEN Env0.a0 ELSE Env0.a1
                n == v.st.cells[c] + v.v
            IN R(env, IF Ok(v.st) THEN Chk(Store(v.st, c, n), n) ELSE v.st)
      [] s.k = "print" ->
            \* every print statement carries an identifier, so that each output line names
            \* the statement that produced it (C19 derives the expected breakpoint hits from it)
            LET v == EvalE(P, s.e, env, st) IN
            R(env, IF Ok(v.st) THEN [Emit1(v.st, <<"p", s.id, v.v>>) EXCEPT !.tr = Append(@, <<"p", s.id>>)] ELSE v.st)
      [] s.k = "printg" ->    \* all globals
            R(env, Emit1(st, <<"g", st.cells[1], st.cells[2], st.cells[3], st.cells[4], st.cells[5], st.cells[6]>>))
      [] s.k \in {"discard", "blankcall"} ->   \* CALL as a statement:  f(e) / c()  or  _ = c()
            R(env, EvalE(P, s.e, env, st).st)
      [] s.k = "cs" ->        \* call statement f(e)
            LET a == EvalArgs(P, s.args, env, st) IN
            IF ~Ok(a.st) THEN R(env, a.st) ELSE R(env, CallFn(P, s.f, a.vs, a.st).st)
      [] s.k = "if" ->
            LET c == EvalE(P, s.c, env, st) IN
            IF ~Ok(c.st) THEN R(env, c.st) ELSE
            LET b == ExecB(P, IF c.v THEN s.th ELSE s.el, env, c.st, ctx) IN
            [env |-> env, st |-> b.st, ctl |-> b.ctl]
      [] s.k = "for" ->
            LET vc == NewId(st)
                l  == Loop3(P, s, env, Alloc(st, 0), ctx, vc)
            IN [env |-> env, st |-> l.st, ctl |-> l.ctl]
      [] s.k = "rng" ->       \* for v := range n { body } : n is evaluated once, v is a fresh variable per iteration
            LET RECURSIVE Rng(_, _)
                Rng(i, s0) ==
                  IF ~Ok(s0) \/ i >= s.n THEN [st |-> s0, ctl |-> Next_] ELSE
                  LET vc == NewId(s0)
                      b  == ExecB(P, s.body, Bind(env, s.v, vc), Alloc(s0, i), ctx)
                      x  == LoopExit(b, s.lab)
                  IN IF x.exit THEN [st |-> b.st, ctl |-> x.ctl] ELSE Rng(i + 1, b.st)
                l == Rng(0, st)
            IN [env |-> env, st |-> l.st, ctl |-> l.ctl]
      [] s.k = "tswitch" ->   \* switch { case c1: ... case c2: ... default: ... } : first true condition
            LET RECURSIVE Pick_(_, _)
                Pick_(i, s0) ==
                  IF i > Len(s.cases) THEN ExecB(P, s.dflt, env, s0, ctx) ELSE
                  LET c == EvalE(P, s.cases[i].c, env, s0) IN
                  IF ~Ok(c.st) THEN [env |-> env, st |-> c.st, ctl |-> Next_]
                  ELSE IF c.v THEN ExecB(P, s.cases[i].body, env, c.st, ctx) ELSE Pick_(i + 1, c.st)
                d == Pick_(1, st)
            IN [env |-> env, st |-> d.st, ctl |-> IF d.ctl.k = "brk" /\ d.ctl.lab = "" THEN Next_ ELSE d.ctl]
      [] s.k = "ifinit" ->    \* if x := e; x op lit { th } else { el } : x is visible in both branches only
            LET v == EvalE(P, s.e, env, st) IN
            IF ~Ok(v.st) THEN R(env, v.st) ELSE
            LET env1 == Bind(env, s.x, NewId(v.st))
                st1  == Alloc(v.st, v.v)
                c    == EvalE(P, s.c, env1, st1)
                b    == ExecB(P, IF c.v THEN s.th ELSE s.el, env1, c.st, ctx)
            IN [env |-> env, st |-> b.st, ctl |-> b.ctl]
      [] s.k = "mksl" ->      \* s := []int{e1, e2, e3} : a NEW backing array at every evaluation
            LET a == EvalArgs(P, s.es, env, st) IN
            IF ~Ok(a.st) THEN R(env, a.st) ELSE
            LET bc  == NewId(a.st)
                st1 == Alloc(a.st, a.vs)
            IN R(Bind(env, s.s, NewId(st1)), Alloc(st1, [back |-> bc]))
      [] s.k = "slshare" ->   \* s2 := s1 : the copy shares the backing array
            R(Bind(env, s.s, NewId(st)), Alloc(st, st.cells[env[s.from]]))
      [] s.k = "slset" ->     \* s[i] = e  /  s[i] += e
            LET v == EvalE(P, s.e, env, st)
                bc == v.st.cells[env[s.s]].back
                old == v.st.cells[bc][s.ix + 1]
                n == IF s.op = "set" THEN v.v ELSE old + v.v
            IN R(env, IF Ok(v.st) THEN Chk(Store(v.st, bc, [v.st.cells[bc] EXCEPT ![s.ix + 1] = n]), n) ELSE v.st)
      [] s.k = "printsl" ->
            LET b == st.cells[st.cells[env[s.s]].back] IN R(env, Emit1(st, <<"s", b[1], b[2], b[3]>>))
      [] s.k = "iswap" ->     \* arr[0], arr[1] = arr[1], arr[0]
            R(env, Store(Store(st, Env0.a0, st.cells[Env0.a1]), Env0.a1, st.cells[Env0.a0]))
      [] s.k = "mkptr" ->     \* p := &x
            R(Bind(env, s.p, NewId(st)), Alloc(st, [ptr |-> env[s.x]]))
      [] s.k = "pset" ->      \* *p = e
            LET v == EvalE(P, s.e, env, st) IN
            R(env, IF Ok(v.st) THEN Store(v.st, v.st.cells[env[s.p]].ptr, v.v) ELSE v.st)
      [] s.k = "pop" ->       \* *p op= e : the operand is evaluated, then *p is read
            LET v == EvalE(P, s.e, env, st)
                c == v.st.cells[env[s.p]].ptr
                o == v.st.cells[c]
                n == IF s.op = "add" THEN o + v.v ELSE o - v.v
            IN R(env, IF Ok(v.st) THEN Chk(Store(v.st, c, n), n) ELSE v.st)
      [] s.k = "switch" ->
            LET t == EvalE(P, s.tag, env, st) IN
            IF ~Ok(t.st) THEN R(env, t.st) ELSE
            LET d == Cases(P, Clauses(s), 1, t.v, env, t.st, ctx)
            IN [env |-> env, st |-> d.st,
                ctl |-> IF d.ctl.k = "brk" /\ d.ctl.lab = "" THEN Next_ ELSE d.ctl]
      [] s.k = "brk"  -> [env |-> env, st |-> st, ctl |-> [k |-> "brk", lab |-> s.lab]]
      [] s.k = "cont" -> [env |-> env, st |-> st, ctl |-> [k |-> "cont", lab |-> s.lab]]
      [] s.k = "ret" ->       \* return e  /  bare return
            IF s.bare THEN [env |-> env, st |-> st, ctl |-> [k |-> "ret", lab |-> ""]] ELSE
            LET v == EvalE(P, s.e, env, st) IN
            IF ~Ok(v.st) THEN R(env, v.st)
            ELSE [env |-> env, st |-> Store(v.st, env[ctx.ret], v.v), ctl |-> [k |-> "ret", lab |-> ""]]
      [] s.k = "ret2" ->      \* return e1, e2
            LET a == EvalE(P, s.a, env, st)
                b == EvalE(P, s.b, env, a.st)
            IN IF ~Ok(b.st) THEN R(env, b.st)
               ELSE [env |-> env, st |-> Store(Store(b.st, env["r"], a.v), env["q"], b.v), ctl |-> [k |-> "ret", lab |-> ""]]
      [] s.k = "mkclo" ->     \* c := func() int { body }
            R(Bind(env, s.c, NewId(st)), Alloc(st, [body |-> s.body, env |-> env, par |-> s.par]))
      [] s.k = "appclo" ->    \* fs = append(fs, func() int { body })
            R(env, Store(st, env["fs"], Append(st.cells[env["fs"]], [body |-> s.body, env |-> env, par |-> FALSE])))
      [] s.k = "mkfs" ->      \* var fs []func() int
            R(Bind(env, "fs", NewId(st)), Alloc(st, <<>>))
      [] s.k = "callall" ->   \* for _, f := range fs { print(f()) }
            R(env, CallAll(P, st.cells[env["fs"]], 1, st))
      [] s.k = "defer" ->     \* defer func() { body }()  |  defer f(e)  |  defer print(e)
            LET id == st.nd + 1 IN
            IF s.form = "lit" THEN
                R(env, [st EXCEPT !.nd = id, !.ev = Append(@, [t |-> "reg", id |-> id, depth |-> Last(st.astk)]),
                                  !.dstk[Len(st.dstk)] = <<[k |-> "lit", id |-> id, body |-> s.body, env |-> env]>> \o @])
            ELSE
                LET a == EvalE(P, s.e, env, st)      \* argument fixed now
                    dd == CASE s.form = "method" -> [k |-> "method", id |-> id, vs |-> <<a.v>>,
                                                      base |-> IF s.via = "ptr" THEN a.st.cells[env[s.s]].ptr ELSE SBase(s.s, env)]
                            [] s.form = "clo"    -> [k |-> "clo", id |-> id, c |-> a.st.cells[env[s.s]]]
                            [] s.form = "nilfn"  -> [k |-> "nilfn", id |-> id]
                            [] s.form = "mdel"   -> [k |-> "mdel", id |-> id, mv |-> a.st.cells[env[s.s]], key |-> a.v % 4]
                            [] s.form \in {"relp", "relq", "rels", "relm"} -> [k |-> s.form, id |-> id, ref |-> a.st.cells[env[s.s]]]
                            [] OTHER             -> [k |-> s.form, id |-> id, f |-> s.f, vs |-> <<a.v>>]
                IN
                IF ~Ok(a.st) THEN R(env, a.st) ELSE
                R(env, [a.st EXCEPT !.nd = id, !.ev = Append(@, [t |-> "reg", id |-> id, depth |-> Last(st.astk)]),
                                    !.dstk[Len(a.st.dstk)] = <<dd>> \o @])
      [] s.k = "panic" ->
            LET v == EvalE(P, s.e, env, st) IN R(env, IF Ok(v.st) THEN Panic(v.st, v.v) ELSE v.st)
      [] s.k = "fault" -> R(env, Panic(st, "fault"))     \* a run-time fault of kind s.kind
      [] s.k = "recover" ->   \* if x := recover(); x != nil { print("rec", x) [; r = e] }
            IF ctx.direct /\ ~st.recd /\ s.how = "direct"
            \* the value recovered is the panic this deferred call was invoked for (ctx.pv), whatever
            \* panics were raised and recovered by the functions it has called meanwhile
            THEN LET st1 == Emit1([st EXCEPT !.recd = TRUE], <<"rec", ctx.pv>>) IN
                 IF s.setr THEN R(env, Store(st1, env["r"], st1.cells[env["r"]] + 100)) ELSE R(env, st1)
            ELSE R(env, Emit1(st, <<"norec">>))
      [] s.k = "asgidx" ->    \* x, arr[x] = e1, e2  |  arr[x], x = e2, e1 : the index is evaluated before x changes
                              \* x, m[x] = e1, e2  |  m[x], x = e2, e1  (s.s names a map variable): the key is evaluated first too
            LET i  == st.cells[env[s.x]]
                a  == EvalE(P, s.a, env, st)
                b  == EvalE(P, s.b, env, a.st)
                c  == IF i % 2 = 0 THEN Env0.a0 ELSE Env0.a1
            IN IF s.s = "" THEN R(env, IF Ok(b.st) THEN Store(Store(b.st, env[s.x], a.v), c, b.v) ELSE b.st)
               ELSE LET mv == b.st.cells[env[s.s]] IN
                    IF ~Ok(b.st) THEN R(env, b.st)
                    \* s.bare: the key is written m[x] (not reduced modulo 4): only for x in 0..3
                    ELSE IF s.bare /\ (i < 0 \/ i > 3) THEN R(env, [b.st EXCEPT !.status = "oor"])
                    ELSE IF mv.mp = 0 THEN R(env, Panic(IF s.form = "xfirst" THEN Store(b.st, env[s.x], a.v) ELSE b.st, "fault"))
                    ELSE R(env, MapPut(Store(b.st, env[s.x], a.v), mv, i % 4, b.v))
      [] s.k = "asgidxc" ->   \* x, arr[x] = two(e)  |  arr[x], x = two(e)  |  the same with a map m[x]: the index is read before
                              \* the results are assigned (x is a local that two cannot reach), then left to right
            LET i == st.cells[env[s.x]]
                a == EvalE(P, s.e, env, st)
            IN IF ~Ok(a.st) THEN R(env, a.st) ELSE
               LET cl == CallFn(P, "two", <<a.v>>, a.st) IN
               IF ~Ok(cl.st) THEN R(env, cl.st) ELSE
               LET vx == IF s.form = "xfirst" THEN cl.vs[1] ELSE cl.vs[2]
                   vc == IF s.form = "xfirst" THEN cl.vs[2] ELSE cl.vs[1]
                   c  == IF i % 2 = 0 THEN Env0.a0 ELSE Env0.a1
               IN IF s.s = "" THEN R(env, Store(Store(cl.st, env[s.x], vx), c, vc))
                  ELSE LET mv == cl.st.cells[env[s.s]] IN
                       IF mv.mp = 0 THEN R(env, Panic(IF s.form = "xfirst" THEN Store(cl.st, env[s.x], vx) ELSE cl.st, "fault"))
                       ELSE R(env, MapPut(Store(cl.st, env[s.x], vx), mv, i % 4, vc))
      [] s.k = "slswap" ->    \* s[i], s[j] = s[j], s[i]
            LET bc == st.cells[env[s.s]].back
                b  == st.cells[bc]
            IN R(env, Store(st, bc, [b EXCEPT ![s.lo + 1] = b[s.hi + 1], ![s.hi + 1] = b[s.lo + 1]]))
      [] s.k = "mkfv" ->      \* h := g  |  h := pick()   (pick returns g) : a variable holding a declared function
            R(Bind(env, s.s, NewId(st)), Alloc(st, [fn |-> "g"]))
      [] s.k = "mkgen" ->     \* c := mkctr(e) : a closure returned by a declared function, with its own counter
            LET v == EvalE(P, s.e, env, st) IN
            IF ~Ok(v.st) THEN R(env, v.st) ELSE
            LET nc  == NewId(v.st)
                st1 == Alloc(v.st, v.v)
                clo == [body |-> << [k |-> "inc", x |-> "n", d |-> 1], [k |-> "ret", bare |-> FALSE, e |-> [k |-> "var", x |-> "n"]] >>,
                        env |-> Bind(Env0, "n", nc), par |-> FALSE]
            IN R(Bind(env, s.c, NewId(st1)), Alloc(st1, clo))
      [] s.k = "imk" ->       \* var e interface{} = X
            LET v == IfaceVal(P, s, env, st) IN
            IF ~Ok(v.st) THEN R(env, v.st) ELSE R(Bind(env, s.s, NewId(v.st)), Alloc(v.st, v.v))
      [] s.k = "iasg" ->      \* e = X
            LET v == IfaceVal(P, s, env, st) IN
            R(env, IF Ok(v.st) THEN Store(v.st, env[s.s], v.v) ELSE v.st)
      [] s.k = "tysw" ->      \* switch v := e.(type) { case ...: print } : s.tys lists the types that have a clause
            LET iv == st.cells[env[s.s]]
                line == IF iv.dyn \in {s.tys[i] : i \in 1..Len(s.tys)}
                        THEN (IF iv.dyn \in s.multi THEN <<"t", s.id, "multi">>
                              ELSE CASE iv.dyn = "int" -> <<"t", s.id, "int", iv.v + 1>>
                                     [] iv.dyn = "str" -> <<"t", s.id, "string", Len(iv.v)>>
                                     [] iv.dyn = "T"   -> <<"t", s.id, "T", iv.v[1]>>
                                     [] iv.dyn = "nil" -> <<"t", s.id, "nil">>)
                        ELSE <<"t", s.id, "other">>
            IN R(env, Emit1(st, line))
      [] s.k = "tyas" ->      \* if v, ok := e.(X); ok { print(v) } else { print("no") }
            LET iv == st.cells[env[s.s]] IN
            R(env, Emit1(st, IF iv.dyn = s.ty
                             THEN <<"a", s.id, CASE s.ty = "int" -> iv.v [] s.ty = "str" -> Len(iv.v) [] s.ty = "T" -> iv.v[2]>>
                             ELSE <<"a", s.id, "no">>))
      [] s.k = "tyas1" ->     \* x = e.(int) : a run-time fault when e does not hold an int
            LET iv == st.cells[env[s.s]] IN
            IF iv.dyn = "int" THEN R(env, Store(st, env[s.x], iv.v)) ELSE R(env, Panic(st, "fault"))
      [] s.k = "mkch" ->      \* ch := make(chan int, 2)
            LET oc == NewId(st)
                st1 == Alloc(st, [buf |-> <<>>, closed |-> FALSE])
            IN R(Bind(env, s.s, NewId(st1)), Alloc(st1, [ch |-> oc]))
      [] s.k = "chsend" ->    \* ch <- e : a full channel would block for ever (program not emitted); a closed one faults
            LET v  == EvalE(P, s.e, env, st)
                oc == v.st.cells[env[s.s]].ch
                o  == v.st.cells[oc]
            IN IF ~Ok(v.st) THEN R(env, v.st)
               ELSE IF o.closed THEN R(env, Panic(v.st, "fault"))
               ELSE IF Len(o.buf) >= 2 THEN R(env, [v.st EXCEPT !.status = "fuel"])
               ELSE R(env, Store(v.st, oc, [o EXCEPT !.buf = Append(@, v.v)]))
      [] s.k = "chtrysend" -> \* select { case ch <- e: print("sent") default: print("full") }
            LET v  == EvalE(P, s.e, env, st)
                oc == v.st.cells[env[s.s]].ch
                o  == v.st.cells[oc]
            IN IF ~Ok(v.st) THEN R(env, v.st)
               ELSE IF o.closed THEN R(env, Panic(v.st, "fault"))
               ELSE IF Len(o.buf) >= 2 THEN R(env, Emit1(v.st, <<"c", s.id, "full">>))
               ELSE R(env, Emit1(Store(v.st, oc, [o EXCEPT !.buf = Append(@, v.v)]), <<"c", s.id, "sent">>))
      [] s.k = "chrecv" ->    \* v, ok := <-ch; print(v, ok) : an empty open channel would block for ever
            LET oc == st.cells[env[s.s]].ch
                o  == st.cells[oc]
            IN IF o.buf # <<>> THEN R(env, Emit1(Store(st, oc, [o EXCEPT !.buf = Tail(@)]), <<"c", s.id, Head(o.buf), "true">>))
               ELSE IF o.closed THEN R(env, Emit1(st, <<"c", s.id, 0, "false">>))
               ELSE R(env, [st EXCEPT !.status = "fuel"])
      [] s.k = "chtry" ->     \* select { case v := <-ch: print(v) default: print("empty") }
            LET oc == st.cells[env[s.s]].ch
                o  == st.cells[oc]
            IN IF o.buf # <<>> THEN R(env, Emit1(Store(st, oc, [o EXCEPT !.buf = Tail(@)]), <<"c", s.id, Head(o.buf)>>))
               ELSE IF o.closed THEN R(env, Emit1(st, <<"c", s.id, 0>>))
               ELSE R(env, Emit1(st, <<"c", s.id, "empty">>))
      [] s.k = "chsel" ->     \* okv := false; select { case DST[, okv] = <-ch: [print "got"] [default: print "empty"] }; print DST[, okv]
                              \* DST (s.form) is a variable, t.a, arr[1], *p or m[2]: the operands on the left are evaluated when the
                              \* case is selected, then the received value (the zero value from a closed channel) is assigned
            LET oc == st.cells[env[s.s]].ch
                o  == st.cells[oc]
                isM == s.form = "map"
                dc == CASE s.form = "var" -> env[s.x]
                        [] s.form = "fld" -> Env0.ta
                        [] s.form = "arr" -> Env0.a1
                        [] s.form = "ptr" -> st.cells[env[s.x]].ptr
                        [] OTHER -> 0
                put(s1, v) == IF isM THEN MapPut(s1, s1.cells[env[s.x]], 2, v) ELSE Store(s1, dc, v)
                get(s1)    == IF isM THEN MapGet(s1, s1.cells[env[s.x]], 2) ELSE s1.cells[dc]
                fin(s1, okv) == Emit1(s1, IF s.ok2 THEN <<"c", s.id, get(s1), okv>> ELSE <<"c", s.id, get(s1)>>)
                got(s1, v, okv) == IF isM /\ s1.cells[env[s.x]].mp = 0 THEN Panic(s1, "fault")
                                   ELSE fin(IF s.hb THEN Emit1(put(s1, v), <<"c", s.id, "got">>) ELSE put(s1, v), okv)
            IN IF o.buf # <<>> THEN R(env, got(Store(st, oc, [o EXCEPT !.buf = Tail(@)]), Head(o.buf), "true"))
               ELSE IF o.closed THEN R(env, got(st, 0, "false"))
               ELSE IF s.hd THEN R(env, fin(Emit1(st, <<"c", s.id, "empty">>), "false"))
               ELSE R(env, [st EXCEPT !.status = "fuel"])
      [] s.k = "chclose" ->   \* close(ch) : closing twice faults
            LET oc == st.cells[env[s.s]].ch
                o  == st.cells[oc]
            IN IF o.closed THEN R(env, Panic(st, "fault")) ELSE R(env, Store(st, oc, [o EXCEPT !.closed = TRUE]))
      [] s.k = "chrange" ->   \* for v := range ch { print(v) } : ends when the channel is closed and drained
            LET oc == st.cells[env[s.s]].ch
                o  == st.cells[oc]
                RECURSIVE Dr(_, _)
                Dr(q, s0) == IF q = <<>> THEN s0 ELSE Dr(Tail(q), Emit1(s0, <<"c", s.id, Head(q)>>))
            IN IF ~o.closed THEN R(env, [st EXCEPT !.status = "fuel"])
               ELSE R(env, Dr(o.buf, Store(st, oc, [o EXCEPT !.buf = <<>>])))
      [] s.k = "preasg" ->    \* p = &x  |  q = &u : the pointer variable now designates another variable
            R(env, Store(st, env[s.p], [ptr |-> IF s.form = "q" THEN SBase(s.s, env) ELSE env[s.x]]))
      [] s.k = "slreasg" ->   \* s = s2  |  s = []int{e1, e2, e3}
            IF s.form = "share" THEN R(env, Store(st, env[s.s], st.cells[env[s.from]])) ELSE
            LET a == EvalArgs(P, s.es, env, st) IN
            IF ~Ok(a.st) THEN R(env, a.st) ELSE
            LET bc == NewId(a.st) IN R(env, Store(Alloc(a.st, a.vs), env[s.s], [back |-> bc]))
      [] s.k = "mreasg" ->    \* m = m2  |  m = make(map[int]int)
            IF s.form = "share" THEN R(env, Store(st, env[s.s], st.cells[env[s.from]])) ELSE
            LET oc == NewId(st) IN R(env, Store(Alloc(st, EmptyMap), env[s.s], [mp |-> oc]))
      [] s.k = "cdef" -> R(env, st)      \* const k = v : uses carry the value
      [] s.k = "bdef" ->      \* b := condition
            LET c == EvalE(P, s.c, env, st) IN
            IF ~Ok(c.st) THEN R(env, c.st) ELSE R(Bind(env, s.s, NewId(c.st)), Alloc(c.st, c.v))
      [] s.k = "basg" ->      \* b = condition
            LET c == EvalE(P, s.c, env, st) IN
            R(env, IF Ok(c.st) THEN Store(c.st, env[s.s], c.v) ELSE c.st)
      [] s.k = "umk" ->       \* u := t  |  u := v  |  u := T{ea, eb} : a new struct variable holding a COPY
            IF s.form = "lit" THEN
                LET a == EvalE(P, s.a, env, st)
                    b == EvalE(P, s.b, env, a.st)
                IN IF ~Ok(b.st) THEN R(env, b.st) ELSE R(Bind(env, s.s, NewId(b.st)), Alloc(Alloc(b.st, a.v), b.v))
            ELSE LET f == SBase(s.from, env) IN
                 R(Bind(env, s.s, NewId(st)), Alloc(Alloc(st, st.cells[f]), st.cells[f + 1]))
      [] s.k = "ucopy" ->     \* dst = src on struct variables: both fields are copied
            LET f == SBase(s.from, env)
                d == SBase(s.s, env)
            IN R(env, Store(Store(st, d, st.cells[f]), d + 1, st.cells[f + 1]))
      [] s.k = "ufset" ->     \* u.f = e  /  u.f += e
            LET v == EvalE(P, s.e, env, st)
                c == SBase(s.s, env) + (IF s.f = "a" THEN 0 ELSE 1)
                n == IF s.op = "set" THEN v.v ELSE v.st.cells[c] + v.v
            IN R(env, IF Ok(v.st) THEN Chk(Store(v.st, c, n), n) ELSE v.st)
      [] s.k = "ubump" ->     \* u.bump(e)  /  q.bump(e) : pointer receiver, adds e to field a
            LET v == EvalE(P, s.e, env, st)
                c == IF s.via = "ptr" THEN v.st.cells[env[s.s]].ptr ELSE SBase(s.s, env)
                n == v.st.cells[c] + v.v
            IN R(env, IF Ok(v.st) THEN Chk(Store(v.st, c, n), n) ELSE v.st)
      [] s.k = "uprint" ->
            LET b == SBase(s.s, env) IN R(env, Emit1(st, <<"u", st.cells[b], st.cells[b + 1]>>))
      [] s.k = "mkpu" ->      \* q := &u
            R(Bind(env, s.p, NewId(st)), Alloc(st, [ptr |-> SBase(s.s, env)]))
      [] s.k = "qfset" ->     \* q.f = e  /  q.f += e
            LET v == EvalE(P, s.e, env, st)
                c == v.st.cells[env[s.p]].ptr + (IF s.f = "a" THEN 0 ELSE 1)
                n == IF s.op = "set" THEN v.v ELSE v.st.cells[c] + v.v
            IN R(env, IF Ok(v.st) THEN Chk(Store(v.st, c, n), n) ELSE v.st)
      [] s.k = "qcopy" ->     \* *q = u  |  u = *q
            LET qb == st.cells[env[s.p]].ptr
                ub == SBase(s.s, env)
                f  == IF s.form = "store" THEN ub ELSE qb
                d  == IF s.form = "store" THEN qb ELSE ub
            IN R(env, Store(Store(st, d, st.cells[f]), d + 1, st.cells[f + 1]))
      [] s.k = "mkmap" ->     \* m := map[int]int{k1: e1, k2: e2}  |  m := make(map[int]int)  |  var m map[int]int
            IF s.form = "nil" THEN R(Bind(env, s.s, NewId(st)), Alloc(st, [mp |-> 0])) ELSE
            LET a == EvalArgs(P, s.es, env, st) IN
            IF ~Ok(a.st) THEN R(env, a.st) ELSE
            LET oc  == NewId(a.st)
                obj == [pres |-> {s.ks[i] : i \in 1..Len(s.ks)},
                        val  |-> [k \in MapKeys |-> IF \E i \in 1..Len(s.ks) : s.ks[i] = k
                                                    THEN a.vs[CHOOSE i \in 1..Len(s.ks) : s.ks[i] = k] ELSE 0]]
                st1 == Alloc(a.st, obj)
            IN R(Bind(env, s.s, NewId(st1)), Alloc(st1, [mp |-> oc]))
      [] s.k = "mshare" ->    \* m2 := m1 : both denote the same map
            R(Bind(env, s.s, NewId(st)), Alloc(st, st.cells[env[s.from]]))
      [] s.k = "mset" ->      \* m[k] = e  /  m[k] += e : key, then value; a nil map faults
            LET i == EvalE(P, s.i, env, st)
                v == EvalE(P, s.e, env, i.st)
                mv == v.st.cells[env[s.s]]
                n == IF s.op = "set" THEN v.v ELSE MapGet(v.st, mv, i.v % 4) + v.v
            IN IF ~Ok(v.st) THEN R(env, v.st)
               ELSE IF mv.mp = 0 THEN R(env, Panic(v.st, "fault"))
               ELSE R(env, Chk(MapPut(v.st, mv, i.v % 4, n), n))
      [] s.k = "mdel" ->      \* delete(m, k) : no effect on a nil map or an absent key
            LET i == EvalE(P, s.i, env, st)
                mv == i.st.cells[env[s.s]]
            IN IF ~Ok(i.st) \/ mv.mp = 0 THEN R(env, i.st)
               ELSE R(env, Store(i.st, mv.mp, [i.st.cells[mv.mp] EXCEPT !.pres = @ \ {i.v % 4}]))
      [] s.k = "mok" ->       \* if v, ok := m[k]; ok { print(v) } else { print(-1) }
            LET i == EvalE(P, s.i, env, st)
                mv == i.st.cells[env[s.s]]
                has == mv.mp # 0 /\ (i.v % 4) \in i.st.cells[mv.mp].pres
            IN IF ~Ok(i.st) THEN R(env, i.st)
               ELSE R(env, Emit1(i.st, <<"k", s.id, IF has THEN MapGet(i.st, mv, i.v % 4) ELSE -1>>))
      [] s.k = "printm" ->
            LET mv == st.cells[env[s.s]] IN
            R(env, Emit1(st, <<"m", MapLen(st, mv), MapGet(st, mv, 0), MapGet(st, mv, 1), MapGet(st, mv, 2), MapGet(st, mv, 3)>>))
      [] s.k = "msum" ->      \* for k, v := range m { x += k*7 + v } : the order of a map range is not specified, the sum is
            LET mv == st.cells[env[s.s]]
                T(k) == IF mv.mp # 0 /\ k \in st.cells[mv.mp].pres THEN k * 7 + st.cells[mv.mp].val[k] ELSE 0
                n == st.cells[env[s.x]] + T(0) + T(1) + T(2) + T(3)
            IN R(env, Chk(Store(st, env[s.x], n), n))
      [] s.k = "sdef" ->      \* w := string expression
            LET v == EvalStr(s.src, env, st) IN
            IF Len(v) > MaxStr THEN R(env, [st EXCEPT !.status = "oor"])
            ELSE R(Bind(env, s.s, NewId(st)), Alloc(st, [str |-> v]))
      [] s.k = "sasg" ->      \* w = string expression  /  w += string expression
            LET v == (IF s.op = "add" THEN st.cells[env[s.s]].str ELSE <<>>) \o EvalStr(s.src, env, st) IN
            IF Len(v) > MaxStr THEN R(env, [st EXCEPT !.status = "oor"])
            ELSE R(env, Store(st, env[s.s], [str |-> v]))
      [] s.k = "sidx" ->      \* x = int(w[ix]) : faults when ix is not below len(w)
            LET w == st.cells[env[s.s]].str IN
            IF s.ix >= Len(w) THEN R(env, Panic(st, "fault")) ELSE R(env, Store(st, env[s.x], w[s.ix + 1]))
      [] s.k = "ssub" ->      \* w2 := w1[lo:hi] : faults when hi exceeds len(w1)
            LET w == st.cells[env[s.from]].str IN
            IF s.hi > Len(w) THEN R(env, Panic(st, "fault"))
            ELSE R(Bind(env, s.s, NewId(st)), Alloc(st, [str |-> SubSeq(w, s.lo + 1, s.hi)]))
      [] s.k = "prints" ->
            LET w == st.cells[env[s.s]].str IN R(env, Emit1(st, <<"w", Len(w), StrOf(w) \o "|">>))
      [] s.k = "srng" ->      \* for i, ch := range w { print(i, ch) }
            LET w == st.cells[env[s.s]].str
                RECURSIVE SR(_, _)
                SR(i, s0) == IF i > Len(w) THEN s0 ELSE SR(i + 1, Emit1(s0, <<"r", i - 1, w[i]>>))
            IN R(env, SR(1, st))
      [] s.k = "gscope" ->    \* { body }  G:    where the body may hold  goto G  (also from inside loops)
            LET b == ExecB(P, s.body, env, st, ctx) IN
            [env |-> env, st |-> b.st, ctl |-> IF b.ctl.k = "goto" /\ b.ctl.lab = s.lab THEN Next_ ELSE b.ctl]
      [] s.k = "goto" -> [env |-> env, st |-> st, ctl |-> [k |-> "goto", lab |-> s.lab]]
      [] s.k = "gloop" ->     \* x := 0;  G: { body };  if x < n { x++; goto G }      (a backward goto)
            LET xc   == NewId(st)
                env1 == Bind(env, s.x, xc)
                RECURSIVE GL(_)
                GL(s0) ==
                  LET b == ExecB(P, s.body, env1, s0, ctx) IN
                  IF ~Ok(b.st) \/ b.ctl.k # "next" THEN [st |-> b.st, ctl |-> b.ctl]
                  ELSE IF b.st.cells[xc] < s.n
                       THEN (IF b.st.fuel = 0 THEN [st |-> [b.st EXCEPT !.status = "fuel"], ctl |-> Next_]
                             ELSE GL([Store(b.st, xc, b.st.cells[xc] + 1) EXCEPT !.fuel = @ - 1]))
                       ELSE [st |-> b.st, ctl |-> Next_]
                l == GL(Alloc(st, 0))
            IN [env |-> env1, st |-> l.st, ctl |-> l.ctl]
      [] s.k = "while" ->     \* for x < n { x++; body }   |   for { x++; if x >= n { break }; body }
            LET RECURSIVE WL(_)
                WL(s0) ==
                  IF s0.fuel = 0 THEN [st |-> [s0 EXCEPT !.status = "fuel"], ctl |-> Next_] ELSE
                  LET xv == s0.cells[env[s.x]]
                      go == IF s.form = "cond" THEN xv < s.n ELSE xv + 1 < s.n
                      s1 == [Store(s0, env[s.x], xv + 1) EXCEPT !.fuel = @ - 1]
                  IN IF s.form = "cond" /\ ~go THEN [st |-> s0, ctl |-> Next_]
                     ELSE IF ~go THEN [st |-> s1, ctl |-> Next_]
                     ELSE LET b == ExecB(P, s.body, env, s1, ctx)
                              x == LoopExit(b, s.lab)
                          IN IF x.exit THEN [st |-> b.st, ctl |-> x.ctl] ELSE WL(b.st)
                l == WL(st)
            IN [env |-> env, st |-> l.st, ctl |-> l.ctl]
      [] s.k = "rngsl" ->     \* for i, v := range s { body } : s is evaluated once, the elements are read when their turn comes
            LET bc == st.cells[env[s.s]].back
                RECURSIVE RS(_, _)
                RS(i, s0) ==
                  IF ~Ok(s0) \/ i >= 3 THEN [st |-> s0, ctl |-> Next_] ELSE
                  LET ic == NewId(s0)
                      s1 == Alloc(Alloc(s0, i), s0.cells[bc][i + 1])
                      b  == ExecB(P, s.body, Bind(Bind(env, s.v, ic), s.vv, ic + 1), s1, ctx)
                      x  == LoopExit(b, s.lab)
                  IN IF x.exit THEN [st |-> b.st, ctl |-> x.ctl] ELSE RS(i + 1, b.st)
                l == RS(0, st)
            IN [env |-> env, st |-> l.st, ctl |-> l.ctl]
      [] s.k = "rngarr" ->    \* for i, v := range arr { body } : ranges over a COPY of the array
            LET c0 == st.cells[Env0.a0]
                c1 == st.cells[Env0.a1]
                RECURSIVE RA(_, _)
                RA(i, s0) ==
                  IF ~Ok(s0) \/ i >= 2 THEN [st |-> s0, ctl |-> Next_] ELSE
                  LET ic == NewId(s0)
                      s1 == Alloc(Alloc(s0, i), IF i = 0 THEN c0 ELSE c1)
                      b  == ExecB(P, s.body, Bind(Bind(env, s.v, ic), s.vv, ic + 1), s1, ctx)
                      x  == LoopExit(b, s.lab)
                  IN IF x.exit THEN [st |-> b.st, ctl |-> x.ctl] ELSE RA(i + 1, b.st)
                l == RA(0, st)
            IN [env |-> env, st |-> l.st, ctl |-> l.ctl]
      [] s.k = "block" ->
            LET b == ExecB(P, s.body, env, st, ctx) IN [env |-> env, st |-> b.st, ctl |-> b.ctl]

(* number of output lines after each top-level statement of main, when they are  *)
(* executed one after the other on one persistent state (C11: an interactive     *)
(* session evaluates them at the global scope)                                   *)
RECURSIVE MarksFrom(_, _, _, _, _)
MarksFrom(P, i, env, st, acc) ==
    IF i > Len(P.main) \/ ~Ok(st) THEN [marks |-> acc, st |-> st] ELSE
    LET h == ExecS(P, P.main[i], env, st, [direct |-> FALSE, ret |-> "$none", pv |-> 0]) IN
    MarksFrom(P, i + 1, h.env, h.st, Append(acc, Len(h.st.out)))
SessionRun(P) ==
    LET m == MarksFrom(P, 1, Env0, [St0 EXCEPT !.dstk = << <<>> >>, !.astk = <<1>>, !.na = 1, !.depth = 1], <<>>) IN
    [marks |-> m.marks, out |-> m.st.out, status |-> m.st.status, globals |-> SubSeq(m.st.cells, 1, 6)]

(* meaning of a program *)
Run(P) ==
    LET b == RunBody(P, P.main, Env0, St0, [direct |-> FALSE, ret |-> "$none", pv |-> 0]) IN
    [out |-> b.st.out, status |-> b.st.status, pval |-> b.st.pval, ev |-> b.st.ev,
     globals |-> SubSeq(b.st.cells, 1, 6), steps |-> Fuel - b.st.fuel, tr |-> b.st.tr]
===============================================================================
