SPECIFICATION SpecFam
CONSTANTS Profile = "defer" Pinned = TRUE FamN = 2 FamFaults = {"divZero", "nilMapWrite"}
INVARIANTS StatusOK ExactlyOnce RunAfterReg LIFO Emit
