SPECIFICATION SpecSim
CONSTANTS Profile = "core" Pinned = FALSE FamN = 2 FamFaults = {"divZero"}
INVARIANTS StatusOK ExactlyOnce RunAfterReg LIFO Emit
