--------------------------------- MODULE GoGen ---------------------------------
(* Program generation for GoCore: the grammar of the quantifier domain.        *)
(*                                                                             *)
(*  - NextSim draws random well-typed programs (kind first, then parameters,   *)
(*    with RandomElement seeded by TLC's -seed) from the full production set;  *)
(*  - the Family* sets enumerate shortcut-directed and defer/panic families    *)
(*    exhaustively.                                                            *)
(* Every state carries one program and Run(program); the model-level           *)
(* properties are invariants over that pair; Emit hands the pair to the        *)
(* harness.                                                                    *)
EXTENDS GoCore

CONSTANTS Profile,     \* "core" (C01 weights) | "defer" (C06 weights)
          Pinned           \* TRUE: include the constructs of known findings (exhaustive / witness tiers); FALSE: named exclusions active (random tiers)

Lit(v)        == [k |-> "lit", v |-> v]
Var(x)        == [k |-> "var", x |-> x]
Bin(op, l, r) == [k |-> "bin", op |-> op, l |-> l, r |-> r]
CallE(f, a)   == [k |-> "call", f |-> f, args |-> <<a>>]
Cmp(op, l, r) == [k |-> "cmp", op |-> op, l |-> l, r |-> r]

Pick(S) == RandomElement(S)
\* weighted choice: a sequence of <<weight, value>>
RECURSIVE Expand(_)
Expand(ws) == IF ws = <<>> THEN <<>> ELSE [i \in 1..Head(ws)[1] |-> Head(ws)[2]] \o Expand(Tail(ws))
PickW(ws) == LET s == Expand(ws) IN s[Pick(1..Len(s))]

(* Order of evaluation.  Go fixes the order of calls but not of variable reads   *)
(* relative to calls, so a program whose result depends on that is outside the  *)
(* property's domain ("deterministic").  The grammar keeps programs inside it   *)
(* by construction: g is PURE (reads, never writes or prints) and may occur      *)
(* anywhere in an expression; f and function literals have effects and occur    *)
(* only as THE call of a call-carrying statement form (x = CALL, x := CALL,      *)
(* x op= CALL with x a local, print(CALL), CALL, return CALL, if CALL < c),      *)
(* whose arguments are pure expressions.                                         *)
(*                                                                               *)
(* generation context                                                            *)
(*  rd/wr: int variables that may be read / assigned here; loc: the locals of    *)
(*  this activation among them; defd: names defined in the current block; labs:  *)
(*  labels of the enclosing loops; pure: inside g; fcall: may call f; clos:      *)
(*  closure variables in scope; fs: slice of closures in scope; ret: what a      *)
(*  return looks like here: "val" (return e), "named" (both), "bare" (return),   *)
(*  "none"; rvar: named result r in scope; dfr: body of a deferred literal;      *)
(*  clob: body of a function literal held in a variable (it may be deferred       *)
(*  through the variable: a recover() in it then stops the panic);                *)
(*  top: inside main's own activation in a session program (no deferred call     *)
(*  there: at the global scope of a session it has no function to belong to);     *)
(*  d: remaining nesting depth; incase: inside a switch case clause (kept for    *)
(*  statistics; the exclusion Excluded_F_C01_1 it served is gone since the defect *)
(*  was repaired)                                                                 *)
Ctx0 == [rd |-> {"g0", "g1"}, wr |-> {"g0", "g1"}, loc |-> {}, defd |-> {}, labs |-> <<>>, incase |-> FALSE, pure |-> FALSE,
         fcall |-> TRUE, clos |-> {}, fs |-> FALSE, ret |-> "none", rvar |-> FALSE, dfr |-> FALSE, clob |-> FALSE, top |-> FALSE, lvl0 |-> FALSE,
         litidx |-> FALSE, ptrs |-> {}, sls |-> {}, maps |-> {}, strs |-> {}, gotos |-> <<>>,
         sts |-> {"t"}, qs |-> {}, bools |-> {}, consts |-> {}, clos1 |-> {}, ifs |-> {}, fvs |-> {}, chs |-> {},
         outer |-> [rd |-> {}, clos |-> {}, ptrs |-> {}, sls |-> {}, maps |-> {}, strs |-> {}, sts |-> {}, qs |-> {}, bools |-> {}, clos1 |-> {}, ifs |-> {}, fvs |-> {}, chs |-> {}], d |-> 2]

RECURSIVE GenE(_, _), GenC(_, _), GenS(_), GenB(_, _), GenLitBody(_), GenDeferBody(_)

\* a map key: a literal or a variable (taken modulo 4 by the semantics and the renderer)
GenKey(c) == IF Pick(1..2) = 1 THEN Lit(Pick(0..3)) ELSE Var(Pick(c.rd))
\* a string literal over {a, b, c} of length 0..3 (the parameter keeps TLC from caching the draw)
RandStr(z) == [k |-> "slit", cs |-> [i \in 1..Pick(0..(3 + 0 * z)) |-> Pick(97..99)]]
StrVar(c)  == [k |-> "sv", s |-> Pick(c.strs)]
StrOp(c)   == IF c.strs # {} /\ Pick(1..2) = 1 THEN StrVar(c) ELSE RandStr(0)
GenStr(c)  == IF Pick(1..2) = 1 THEN StrOp(c) ELSE [k |-> "scat", l |-> StrOp(c), r |-> StrOp(c)]

\* forms of the index of "x, m[x] = a, b": FALSE the key is written ((x)%4+4)%4, TRUE it is written x
\* (TRUE is held back until the repair of the late evaluation of a plain index lands in /repo)
BareForms == {FALSE, TRUE}
\* recover() in the body of a function literal held in a variable (h := func() { recover() }; defer h()):
\* FALSE: the form is a known finding (F-C06-11, witness recover-in-a-literal-deferred-through-a-variable): the
\* repair that was written needs the identity of function values (unsafe) and is not exact across goroutines
ClobForms == FALSE
\* targets of "x, C[x] = two(e)": "" the array, "m1" a map
TupleCallTargets == {"", "m1"}

GenLeaf(c) ==
    LET k == PickW(<< <<3, "lit">>, <<4, "var">>, <<1, "fld">>, <<1, "idx">>, <<IF c.ptrs # {} THEN 2 ELSE 0, "deref">>,
                      <<IF c.sls # {} THEN 2 ELSE 0, "sl">>, <<IF c.maps # {} THEN 2 ELSE 0, "mget">>,
                      <<IF c.maps # {} THEN 1 ELSE 0, "mlen">>, <<IF c.strs # {} THEN 1 ELSE 0, "slen">>,
                      <<IF c.sts # {"t"} THEN 3 ELSE 0, "ufld">>, <<IF c.qs # {} THEN 2 ELSE 0, "qfld">>, <<1, "usum">>, <<1, "utag">>,
                      <<IF c.consts # {} THEN 2 ELSE 0, "cvar">>, <<IF c.chs # {} THEN 1 ELSE 0, "chlen">>,
                      <<IF c.sls # {} THEN 1 ELSE 0, "vspread">> >>) IN
    CASE k = "lit" -> Lit(Pick(0..5))
      [] k = "mget"  -> [k |-> "mget", s |-> Pick(c.maps), i |-> GenKey(c)]
      [] k = "mlen"  -> [k |-> "mlen", s |-> Pick(c.maps)]
      [] k = "ufld"  -> [k |-> "ufld", s |-> Pick(c.sts), f |-> Pick({"a", "b"})]
      [] k = "qfld"  -> [k |-> "qfld", p |-> Pick(c.qs), f |-> Pick({"a", "b"})]
      [] k = "usum"  -> IF c.qs # {} /\ Pick(1..3) = 1 THEN [k |-> "usum", via |-> "ptr", s |-> Pick(c.qs)]
                        ELSE [k |-> "usum", via |-> "val", s |-> Pick(c.sts)]
      [] k = "utag"  -> IF c.qs # {} /\ Pick(1..3) = 1
                        THEN [k |-> "utag", m |-> Pick({"tag", "ptag"}), via |-> "ptr", s |-> Pick(c.qs), e |-> Lit(Pick(0..5))]
                        ELSE [k |-> "utag", m |-> Pick({"tag", "ptag"}), via |-> "val", s |-> Pick(c.sts), e |-> Lit(Pick(0..5))]
      [] k = "cvar"  -> LET kc == Pick(c.consts) IN [k |-> "cvar", x |-> kc[1], v |-> kc[2]]
      [] k = "chlen" -> [k |-> "chlen", s |-> Pick(c.chs)]
      [] k = "vspread" -> [k |-> "vspread", s |-> Pick(c.sls)]
      [] k = "slen"  -> [k |-> "slen", s |-> Pick(c.strs)]
      [] k = "deref" -> [k |-> "deref", p |-> Pick(c.ptrs)]
      [] k = "sl"    -> [k |-> "sl", s |-> Pick(c.sls), ix |-> Pick(0..2)]
      [] k = "var" -> Var(Pick(c.rd))
      [] k = "fld" -> [k |-> "fld", f |-> Pick({"a", "b"})]
      [] k = "idx" -> [k |-> "idx", i |-> IF Pick(1..2) = 1 THEN Lit(Pick(0..1)) ELSE Var(Pick(c.rd))]

\* pure expression
GenE(d, c) ==
    IF d = 0 THEN GenLeaf(c) ELSE
    LET k == PickW(<< <<4, "leaf">>, <<4, "bin">>, <<IF c.pure THEN 0 ELSE 2, "call">>, <<1, "vcall">>,
                      <<IF c.fvs # {} /\ ~c.pure THEN 2 ELSE 0, "fvcall">> >>) IN
    CASE k = "leaf" -> GenLeaf(c)
      [] k = "bin"  -> Bin(Pick({"add", "sub", "mul"}), GenE(d - 1, c), GenE(d - 1, c))
      [] k = "call" -> CallE("g", GenE(d - 1, c))
      [] k = "vcall" -> [k |-> "vcall", args |-> [i \in 1..Pick(0..3) |-> GenE(d - 1, c)]]
      [] k = "fvcall" -> [k |-> "fvcall", h |-> Pick(c.fvs), args |-> <<GenE(d - 1, c)>>]

\* the one effectful call of a call-carrying statement
HasCall(c) == ~c.pure /\ (c.fcall \/ c.clos # {})
GenCall(c) ==
    IF c.clos # {} /\ (~c.fcall \/ Pick(1..2) = 1)
    THEN LET n == Pick(c.clos) IN [k |-> "clo", c |-> n, args |-> IF n \in c.clos1 THEN <<GenE(1, c)>> ELSE <<>>]
    ELSE CallE("f", GenE(1, c))

RECURSIVE IsConstE(_)
IsConstE(e) == e.k \in {"lit", "cvar"} \/ (e.k = "bin" /\ IsConstE(e.l) /\ IsConstE(e.r))

\* (the named exclusions Excluded_F_C01_2 - constant-constant conditions - and Excluded_F_C01_3 -
\* literal indices inside && and || - are gone: both defects were repaired)
GenC(d, c) ==
    LET sw == IF c.strs # {} THEN 2 ELSE 0
        bw == IF c.bools # {} THEN 3 ELSE 0
        uw == IF Cardinality(c.sts) >= 2 THEN 1 ELSE 0
        nilable == [v \in c.ifs |-> "if"] @@ [v \in c.maps |-> "map"] @@ [v \in c.ptrs |-> "ptr"]
        nw == IF DOMAIN nilable # {} THEN 2 ELSE 0
        k == IF d = 0 THEN PickW(<< <<5, "cmp">>, <<sw, "scmp">>, <<bw, "bvar">>, <<uw, "ucmp">>, <<nw, "isnil">> >>)
             ELSE PickW(<< <<5, "cmp">>, <<sw, "scmp">>, <<bw, "bvar">>, <<uw, "ucmp">>, <<nw, "isnil">>, <<1, "and">>, <<1, "or">>, <<1, "not">> >>)
        c2 == c
    IN
    CASE k = "cmp" -> LET l == GenE(1, c)
                          r == GenE(IF d = 0 THEN 0 ELSE 1, c)
                      IN Cmp(Pick({"lt", "le", "eq", "ne"}), l, r)
      [] k = "bvar" -> [k |-> "bvar", s |-> Pick(c.bools)]
      [] k = "isnil" -> LET v == Pick(DOMAIN nilable) IN
                        [k |-> "isnil", s |-> v, sort |-> nilable[v], op |-> Pick({"eq", "ne"}), form |-> Pick({"xn", "nx"})]
      [] k = "ucmp" -> LET l == Pick(c.sts) IN [k |-> "ucmp", op |-> Pick({"eq", "ne"}), s |-> l, from |-> Pick(c.sts \ {l})]
      [] k = "scmp" -> [k |-> "scmp", op |-> Pick({"eq", "ne", "lt"}), l |-> StrVar(c), r |-> StrOp(c)]
      [] k = "and" -> [k |-> "and", l |-> GenC(0, c2), r |-> GenC(0, c2)]
      [] k = "or"  -> [k |-> "or",  l |-> GenC(0, c2), r |-> GenC(0, c2)]
      [] k = "not" -> [k |-> "not", x |-> GenC(0, c)]

InSwitchOfLoop(c) == FALSE
FreeNames(c) == {"x", "y", "z"} \ c.defd
FreeClos(c)  == {"c1", "c2"} \ (c.defd \cup c.clos)
FreePtrs(c)  == {"p1", "p2"} \ (c.defd \cup c.ptrs)
FreeSls(c)   == {"s1", "s2"} \ (c.defd \cup c.sls)
\* the names visible where the outermost enclosing loop begins (kept while inside nested loops)
Snap(c) == IF c.labs # <<>> THEN c.outer
           ELSE [rd |-> c.rd, clos |-> c.clos, ptrs |-> c.ptrs, sls |-> c.sls, maps |-> c.maps, strs |-> c.strs,
                 sts |-> c.sts, qs |-> c.qs, bools |-> c.bools, clos1 |-> c.clos1, ifs |-> c.ifs, fvs |-> c.fvs, chs |-> c.chs]
FreeMaps(c)  == {"m1", "m2"} \ (c.defd \cup c.maps)
FreeStrs(c)  == {"w1", "w2"} \ (c.defd \cup c.strs)
FreeSts(c)   == {"u1", "u2"} \ (c.defd \cup c.sts)
FreeQs(c)    == {"q1", "q2"} \ (c.defd \cup c.qs)
FreeBools(c) == {"b1", "b2"} \ (c.defd \cup c.bools)
FreeConsts(c) == {"k1", "k2"} \ (c.defd \cup {kc[1] : kc \in c.consts})
FreeIfs(c)   == {"e1", "e2"} \ (c.defd \cup c.ifs)
FreeFvs(c)   == {"h1", "h2"} \ (c.defd \cup c.fvs)
FreeChs(c)   == {"ch1", "ch2"} \ (c.defd \cup c.chs)
\* what an interface variable is given: [form, e, src, from]
GenIface(c) ==
    LET f == PickW(<< <<3, "int">>, <<2, "str">>, <<2, "T">>, <<1, "nil">> >>) IN
    [form |-> f, e |-> IF f = "int" THEN GenE(1, c) ELSE Lit(0), src |-> IF f = "str" THEN GenStr(c) ELSE RandStr(1),
     from |-> IF f = "T" THEN Pick(c.sts) ELSE "t"]
Inner(c)     == [c EXCEPT !.defd = {}, !.d = c.d - 1, !.lvl0 = FALSE]

\* body of a function literal of type func() int: its locals are its own
GenLitBody(c) ==
    LET c1 == [Inner(c) EXCEPT !.ret = "val", !.labs = <<>>, !.gotos = <<>>, !.dfr = FALSE, !.clob = ClobForms, !.loc = {}, !.top = FALSE] IN
    GenB(Pick(0..2), c1) \o << [k |-> "ret", bare |-> FALSE, e |-> GenE(1, c1)] >>

\* body of a deferred literal  defer func() { ... }()
\* (Excluded_F_C06_1: a deferred literal does not refer to the variables of enclosing
\*  loops - the interpreter shows it the last iteration's variable, known finding)
\*  widened: nor to any variable declared inside the body of an enclosing loop)
GenDeferBody(c) ==
    LET cut == FALSE      \* (the exclusion Excluded_F_C06_1 - no variable of an enclosing loop in a deferred literal - is gone: repaired)
        c0 == IF cut THEN [c EXCEPT !.rd = @ \cap c.outer.rd, !.wr = @ \cap c.outer.rd, !.clos = @ \cap c.outer.clos,
                                    !.ptrs = @ \cap c.outer.ptrs, !.sls = @ \cap c.outer.sls, !.maps = @ \cap c.outer.maps,
                                    !.strs = @ \cap c.outer.strs, !.sts = @ \cap (c.outer.sts \cup {"t"}), !.qs = @ \cap c.outer.qs,
                                    !.bools = @ \cap c.outer.bools, !.clos1 = @ \cap c.outer.clos1,
                                    !.ifs = @ \cap c.outer.ifs, !.fvs = @ \cap c.outer.fvs, !.chs = @ \cap c.outer.chs]
              ELSE c
        c1 == [Inner(c0) EXCEPT !.ret = "bare", !.labs = <<>>, !.gotos = <<>>, !.dfr = TRUE, !.loc = {}, !.top = FALSE]
        rec == IF Pick(1..3) # 1 THEN << [k |-> "recover", how |-> PickW(<< <<4, "direct">>, <<1, "helper">> >>),
                                         setr |-> c.rvar /\ Pick(1..2) = 1] >> ELSE <<>>
        pre == GenB(Pick(0..1), c1)
        dd  == {pre[i].x : i \in {j \in 1..Len(pre) : pre[j].k \in {"def", "gloop"}}} \cup {pre[i].c : i \in {j \in 1..Len(pre) : pre[j].k = "mkclo"}}
               \cup {pre[i].p : i \in {j \in 1..Len(pre) : pre[j].k \in {"mkptr", "mkpu"}}}
               \cup {pre[i].x : i \in {j \in 1..Len(pre) : pre[j].k = "cdef"}}
               \cup {pre[i].s : i \in {j \in 1..Len(pre) : pre[j].k \in {"mksl", "slshare", "mkmap", "mshare", "sdef", "ssub", "umk", "bdef", "imk", "mkfv", "mkch"}}}
               \cup {pre[i].c : i \in {j \in 1..Len(pre) : pre[j].k = "mkgen"}}
        post == IF Pick(1..4) = 1 THEN << [k |-> "panic", e |-> Lit(Pick(6..9))] >>
                ELSE GenB(Pick(0..1), [c1 EXCEPT !.defd = dd])
    IN pre \o rec \o post

Kinds(c) ==
    LET deferW == IF Profile = "defer" THEN 6 ELSE 1
        loop   == c.labs # <<>>
        deep   == c.d > 0
        eff    == IF c.pure THEN 0 ELSE 1
        call   == IF HasCall(c) THEN 1 ELSE 0
    IN << <<5, "asg">>, <<IF FreeNames(c) # {} THEN 3 ELSE 0, "def">>, <<3, "opasg">>, <<2, "inc">>,
          <<IF Cardinality(c.wr) >= 2 THEN 1 ELSE 0, "swap">>,
          <<eff, "asg2">>, <<eff, "fset">>, <<eff, "tlit">>, <<eff, "iset">>, <<eff, "iop">>,
          <<5 * eff, "print">>, <<eff, "printg">>,
          <<3 * call, "asgc">>, <<IF FreeNames(c) # {} THEN 2 * call ELSE 0, "defc">>, <<2 * call, "printc">>,
          <<2 * call, "csc">>, <<IF c.ret \in {"val", "named"} THEN call ELSE 0, "retc">>,
          <<IF c.fcall /\ ~c.pure /\ (c.loc \cap c.wr) # {} THEN 2 ELSE 0, "opasgc">>,
          <<IF deep /\ c.fcall /\ ~c.pure THEN 1 ELSE 0, "ifc">>,
          <<IF deep THEN 3 ELSE 0, "if">>, <<IF deep THEN 3 ELSE 0, "for">>, <<IF deep THEN 2 ELSE 0, "switch">>,
          <<IF deep THEN 2 ELSE 0, "rng">>, <<IF deep THEN 1 ELSE 0, "tswitch">>,
          <<IF deep /\ FreeNames(c) # {} THEN 1 ELSE 0, "ifinit">>, <<eff, "iswap">>,
          <<IF FreePtrs(c) # {} /\ ~c.pure THEN 1 ELSE 0, "mkptr">>,
          <<IF c.ptrs # {} THEN 4 ELSE 0, "pset">>, <<IF c.ptrs # {} THEN 4 ELSE 0, "pop">>,
          <<IF FreeSls(c) # {} /\ ~c.pure THEN 2 ELSE 0, "mksl">>,
          <<IF FreeSls(c) # {} /\ c.sls # {} /\ ~c.pure THEN 1 ELSE 0, "slshare">>,
          <<IF c.sls # {} THEN 6 ELSE 0, "slset">>, <<IF c.sls # {} /\ ~c.pure THEN 5 ELSE 0, "printsl">>,
          <<IF FreeMaps(c) # {} /\ ~c.pure THEN 2 ELSE 0, "mkmap">>,
          <<IF FreeMaps(c) # {} /\ c.maps # {} /\ ~c.pure THEN 1 ELSE 0, "mshare">>,
          <<IF c.maps # {} THEN 7 * eff ELSE 0, "mset">>, <<IF c.maps # {} THEN 2 * eff ELSE 0, "mdel">>,
          <<IF c.maps # {} THEN 2 * eff ELSE 0, "mok">>, <<IF c.maps # {} THEN 5 * eff ELSE 0, "printm">>,
          <<IF c.maps # {} THEN 2 ELSE 0, "msum">>,
          <<IF FreeStrs(c) # {} /\ ~c.pure THEN 2 ELSE 0, "sdef">>, <<IF c.strs # {} THEN 5 * eff ELSE 0, "sasg">>,
          <<IF c.strs # {} THEN 2 * eff ELSE 0, "sidx">>, <<IF c.strs # {} /\ FreeStrs(c) # {} THEN 2 * eff ELSE 0, "ssub">>,
          <<IF c.strs # {} THEN 5 * eff ELSE 0, "prints">>, <<IF c.strs # {} THEN 2 * eff ELSE 0, "srng">>,
          <<IF FreeSts(c) # {} /\ ~c.pure THEN 2 ELSE 0, "umk">>,
          <<IF c.sts # {"t"} THEN 3 * eff ELSE 0, "ucopy">>, <<IF c.sts # {"t"} THEN 5 ELSE 0, "ufset">>,
          <<2 * eff, "ubump">>, <<IF c.sts # {"t"} THEN 4 * eff ELSE 0, "uprint">>,
          <<IF FreeQs(c) # {} /\ ~c.pure THEN 1 ELSE 0, "mkpu">>,
          <<IF c.qs # {} THEN 4 * eff ELSE 0, "qfset">>, <<IF c.qs # {} THEN 2 * eff ELSE 0, "qcopy">>,
          <<IF FreeBools(c) # {} THEN 2 ELSE 0, "bdef">>, <<IF c.bools # {} THEN 3 ELSE 0, "basg">>,
          <<IF FreeConsts(c) # {} THEN 1 ELSE 0, "cdef">>,
          <<eff, "asgidx">>,
          <<IF c.ptrs # {} THEN 2 ELSE 0, "preasg">>, <<IF c.qs # {} THEN 2 ELSE 0, "qreasg">>,
          <<IF c.sls # {} THEN 2 ELSE 0, "slreasg">>, <<IF c.maps # {} THEN 2 * eff ELSE 0, "mreasg">>, <<IF c.sls # {} THEN 2 ELSE 0, "slswap">>,
          <<IF FreeFvs(c) # {} /\ ~c.pure THEN 1 ELSE 0, "mkfv">>,
          <<IF FreeClos(c) # {} /\ ~c.pure THEN 1 ELSE 0, "mkgen">>,
          <<IF FreeIfs(c) # {} /\ ~c.pure THEN 2 ELSE 0, "imk">>, <<IF c.ifs # {} THEN 3 * eff ELSE 0, "iasg">>,
          <<IF c.ifs # {} THEN 4 * eff ELSE 0, "tysw">>, <<IF c.ifs # {} THEN 3 * eff ELSE 0, "tyas">>,
          <<IF c.ifs # {} THEN eff ELSE 0, "tyas1">>,
          <<IF FreeChs(c) # {} /\ ~c.pure THEN 1 ELSE 0, "mkch">>,
          <<IF c.chs # {} THEN 3 * eff ELSE 0, "chsend">>, <<IF c.chs # {} THEN 2 * eff ELSE 0, "chtrysend">>,
          <<IF c.chs # {} THEN 2 * eff ELSE 0, "chrecv">>, <<IF c.chs # {} THEN 3 * eff ELSE 0, "chtry">>,
          <<IF c.chs # {} THEN eff ELSE 0, "chclose">>, <<IF c.chs # {} THEN eff ELSE 0, "chrange">>,
          <<IF deep /\ Len(c.gotos) < 3 THEN 1 ELSE 0, "gscope">>, <<IF c.gotos # <<>> THEN 4 ELSE 0, "goto">>,
          <<IF deep /\ FreeNames(c) # {} THEN 1 ELSE 0, "gloop">>,
          <<IF deep THEN 2 ELSE 0, "while">>,
          <<IF deep /\ c.sls # {} THEN 2 ELSE 0, "rngsl">>, <<IF deep THEN eff ELSE 0, "rngarr">>,
          <<IF loop THEN 2 ELSE 0, "brk">>, <<IF loop THEN 2 ELSE 0, "cont">>,
          <<IF c.ret # "none" /\ Profile = "core" THEN 1 ELSE 0, "ret">>,
          <<IF deep /\ FreeClos(c) # {} THEN 2 * eff ELSE 0, "mkclo">>,
          <<IF deep /\ c.fs THEN 3 ELSE 0, "appclo">>,
          <<IF deep /\ ~c.top THEN deferW * eff ELSE 0, "defer">>,
          <<(IF Profile = "defer" THEN 3 ELSE 1) * eff, "panic">>,
          <<(IF Profile = "defer" THEN 2 ELSE 0) * eff, "fault">>,
          <<IF c.dfr THEN 2 ELSE IF c.clob THEN 2 ELSE 0, "recover">>,
          <<IF deep THEN 1 ELSE 0, "block">> >>

\* a statement and the context for the statements that follow it in the block
GenS(c) ==
    LET k == PickW(Kinds(c))
        S(s) == [s |-> s, c |-> c]
        D(x, s) == [s |-> s, c |-> [c EXCEPT !.rd = @ \cup {x}, !.wr = @ \cup {x}, !.loc = @ \cup {x}, !.defd = @ \cup {x}]]
    IN
    CASE k = "asg"   -> S([k |-> "asg", x |-> Pick(c.wr), e |-> GenE(2, c)])
      \* (one definition in six declares a LOCAL named like the package variable g0: from there to the end of the
      \* block the name denotes the local; functions and closures made before keep denoting the package variable)
      \* (not in the statement list of main of a session program: evaluated at the root level such a declaration
      \* REPLACES the symbol g0 for the whole chunk - known finding F-C11-5, witness main-local-named-like-a-package-variable)
      [] k = "def"   -> LET x == IF "g0" \notin c.defd /\ ~c.lvl0 /\ Pick(1..6) = 1 THEN "g0" ELSE Pick(FreeNames(c))
                        IN D(x, [k |-> "def", x |-> x, e |-> GenE(2, c)])
      [] k = "opasg" -> S([k |-> "opasg", x |-> Pick(c.wr), op |-> Pick({"add", "sub"}), e |-> GenE(1, c)])
      [] k = "inc"   -> S([k |-> "inc", x |-> Pick(c.wr), d |-> Pick({1, -1})])
      [] k = "swap"  -> LET x == Pick(c.wr) IN S([k |-> "swap", x |-> x, y |-> Pick(c.wr \ {x})])
      [] k = "asg2"  -> LET x == Pick(c.wr) IN
                        S([k |-> "asg2", x |-> x, y |-> Pick(IF Cardinality(c.wr) > 1 THEN c.wr \ {x} ELSE c.wr), e |-> GenE(1, c)])
      [] k = "fset"  -> S([k |-> "fset", f |-> Pick({"a", "b"}), e |-> GenE(1, c)])
      [] k = "tlit"  -> LET c2 == c IN
                        S([k |-> "tlit", a |-> GenE(1, c2), b |-> GenE(1, c2)])
      [] k = "iset"  -> S([k |-> "iset", i |-> GenLeaf(c), e |-> GenE(1, c)])
      [] k = "iop"   -> S([k |-> "iop", i |-> GenE(1, c), e |-> GenE(1, c)])
      [] k = "print" -> S([k |-> "print", id |-> Pick(100..99999), e |-> GenE(2, c)])
      [] k = "printg" -> S([k |-> "printg"])
      [] k = "asgc"  -> S([k |-> "asg", x |-> Pick(c.wr), e |-> GenCall(c)])
      [] k = "defc"  -> LET x == Pick(FreeNames(c)) IN D(x, [k |-> "def", x |-> x, e |-> GenCall(c)])
      [] k = "printc" -> S([k |-> "print", id |-> Pick(100..99999), e |-> GenCall(c)])
      [] k = "csc"   -> S([k |-> Pick({"discard", "blankcall"}), e |-> GenCall(c)])
      [] k = "retc"  -> S([k |-> "ret", bare |-> FALSE, e |-> GenCall(c)])
      [] k = "opasgc" -> S([k |-> "opasg", x |-> Pick(c.loc \cap c.wr), op |-> Pick({"add", "sub"}), e |-> CallE("f", GenE(1, c))])
      [] k = "ifc"   -> S([k |-> "if", c |-> Cmp(Pick({"lt", "le", "eq", "ne"}), CallE("f", GenE(1, c)), Lit(Pick(0..5))),
                           th |-> GenB(Pick(1..2), Inner(c)), el |-> IF Pick(1..2) = 1 THEN GenB(1, Inner(c)) ELSE <<>>])
      [] k = "if"    -> S([k |-> "if", c |-> GenC(1, c), th |-> GenB(Pick(1..2), Inner(c)),
                           el |-> IF Pick(1..2) = 1 THEN GenB(Pick(1..2), Inner(c)) ELSE <<>>])
      [] k = "for"   -> LET v   == <<"i", "j", "k">>[Len(c.labs) + 1]
                            lab == <<"L1", "L2", "L3">>[Len(c.labs) + 1]
                            c1  == [Inner(c) EXCEPT !.rd = @ \cup {v}, !.wr = @ \cup {v},
                                                    !.loc = @ \cup {v}, !.labs = Append(@, lab), !.outer = Snap(c)]
                        IN S([k |-> "for", v |-> v, n |-> Pick(1..3), lab |-> lab, body |-> GenB(Pick(1..3), c1)])
      [] k = "rng"   -> LET v   == <<"i", "j", "k">>[Len(c.labs) + 1]
                            lab == <<"L1", "L2", "L3">>[Len(c.labs) + 1]
                            c1  == [Inner(c) EXCEPT !.rd = @ \cup {v}, !.wr = @ \cup {v},
                                                    !.loc = @ \cup {v}, !.labs = Append(@, lab), !.outer = Snap(c)]
                        IN S([k |-> "rng", v |-> v, n |-> Pick(1..3), lab |-> lab, body |-> GenB(Pick(1..3), c1)])
      [] k = "while" -> LET lab == <<"L1", "L2", "L3">>[Len(c.labs) + 1]
                            c1  == [Inner(c) EXCEPT !.labs = Append(@, lab), !.outer = Snap(c)]
                        IN S([k |-> "while", form |-> Pick({"cond", "inf"}), x |-> Pick(c.wr), n |-> Pick(1..3), lab |-> lab,
                              body |-> GenB(Pick(1..2), c1)])
      [] k \in {"rngsl", "rngarr"} ->
                        LET v   == <<"i", "j", "k">>[Len(c.labs) + 1]
                            vv  == <<"vi", "vj", "vk">>[Len(c.labs) + 1]
                            lab == <<"L1", "L2", "L3">>[Len(c.labs) + 1]
                            c1  == [Inner(c) EXCEPT !.rd = @ \cup {v, vv}, !.wr = @ \cup {v, vv},
                                                    !.loc = @ \cup {v, vv}, !.labs = Append(@, lab), !.outer = Snap(c)]
                        IN S([k |-> k, s |-> IF k = "rngsl" THEN Pick(c.sls) ELSE "", v |-> v, vv |-> vv, lab |-> lab,
                              body |-> GenB(Pick(1..3), c1)])
      [] k = "preasg" -> S([k |-> "preasg", form |-> "p", p |-> Pick(c.ptrs), x |-> Pick(c.wr), s |-> ""])
      [] k = "qreasg" -> S([k |-> "preasg", form |-> "q", p |-> Pick(c.qs), x |-> "", s |-> Pick(c.sts)])
      [] k = "slreasg" -> LET d == Pick(c.sls) IN
                          S(IF Cardinality(c.sls) > 1 /\ Pick(1..2) = 1
                            THEN [k |-> "slreasg", form |-> "share", s |-> d, from |-> Pick(c.sls \ {d}), es |-> <<>>]
                            ELSE [k |-> "slreasg", form |-> "lit", s |-> d, from |-> "", es |-> <<GenE(1, c), GenLeaf(c), Lit(Pick(0..5))>>])
      [] k = "mreasg" -> LET d == Pick(c.maps) IN
                          S(IF Cardinality(c.maps) > 1 /\ Pick(1..2) = 1
                            THEN [k |-> "mreasg", form |-> "share", s |-> d, from |-> Pick(c.maps \ {d})]
                            ELSE [k |-> "mreasg", form |-> "make", s |-> d, from |-> ""])
      [] k = "asgidx" -> S([k |-> "asgidx", x |-> Pick(c.wr), form |-> Pick({"xfirst", "afirst"}), a |-> GenE(1, c), b |-> GenE(1, c),
                              s |-> IF c.maps # {} /\ Pick(1..2) = 1 THEN Pick(c.maps) ELSE "", bare |-> Pick(BareForms)])
      [] k = "slswap" -> LET lo == Pick(0..1) IN S([k |-> "slswap", s |-> Pick(c.sls), lo |-> lo, hi |-> Pick((lo + 1)..2)])
      [] k = "mkfv"  -> LET n == Pick(FreeFvs(c)) IN
                        [s |-> [k |-> "mkfv", s |-> n, form |-> Pick({"g", "pick"})], c |-> [c EXCEPT !.fvs = @ \cup {n}, !.defd = @ \cup {n}]]
      [] k = "mkgen" -> LET n == Pick(FreeClos(c)) IN
                        [s |-> [k |-> "mkgen", c |-> n, e |-> GenE(1, c)], c |-> [c EXCEPT !.clos = @ \cup {n}, !.defd = @ \cup {n}]]
      [] k = "imk"   -> LET n == Pick(FreeIfs(c))
                            v == GenIface(c)
                        IN [s |-> [k |-> "imk", s |-> n, form |-> v.form, e |-> v.e, src |-> v.src, from |-> v.from],
                            c |-> [c EXCEPT !.ifs = @ \cup {n}, !.defd = @ \cup {n}]]
      [] k = "iasg"  -> LET v == GenIface(c) IN
                        S([k |-> "iasg", s |-> Pick(c.ifs), form |-> v.form, e |-> v.e, src |-> v.src, from |-> v.from])
      [] k = "tysw"  -> LET all == <<"int", "str", "T", "nil">>
                            keep == {i \in 1..4 : Pick(1..3) # 1}
                            RECURSIVE Sel(_)
                            Sel(i) == IF i > 4 THEN <<>> ELSE (IF i \in keep THEN <<all[i]>> ELSE <<>>) \o Sel(i + 1)
                            cs == Sel(1)
                            \* int and string may share one clause (the variable then keeps the interface type)
                            multi == IF {1, 2} \subseteq keep /\ Pick(1..3) = 1 THEN {"int", "str"} ELSE {}
                        IN S([k |-> "tysw", id |-> Pick(100..99999), s |-> Pick(c.ifs), tys |-> cs, multi |-> multi,
                              bind |-> Pick({TRUE, FALSE}), rot |-> Pick(0..3)])
      [] k = "tyas"  -> S([k |-> "tyas", id |-> Pick(100..99999), s |-> Pick(c.ifs), ty |-> Pick({"int", "str", "T"})])
      [] k = "tyas1" -> S([k |-> "tyas1", s |-> Pick(c.ifs), x |-> Pick(c.wr)])
      [] k = "mkch"  -> LET n == Pick(FreeChs(c)) IN
                        [s |-> [k |-> "mkch", s |-> n], c |-> [c EXCEPT !.chs = @ \cup {n}, !.defd = @ \cup {n}]]
      [] k = "chsend" -> S([k |-> "chsend", s |-> Pick(c.chs), e |-> GenE(1, c)])
      [] k = "chtrysend" -> S([k |-> "chtrysend", id |-> Pick(100..99999), s |-> Pick(c.chs), e |-> GenE(1, c)])
      [] k = "chrecv" -> S([k |-> "chrecv", id |-> Pick(100..99999), s |-> Pick(c.chs)])
      [] k = "chtry" -> S([k |-> "chtry", id |-> Pick(100..99999), s |-> Pick(c.chs)])
      [] k = "chclose" -> S([k |-> "chclose", s |-> Pick(c.chs)])
      [] k = "chrange" -> S([k |-> "chrange", id |-> Pick(100..99999), s |-> Pick(c.chs)])
      [] k = "cdef"  -> LET n == Pick(FreeConsts(c))
                            v == Pick(0..5)
                        IN [s |-> [k |-> "cdef", x |-> n, v |-> v], c |-> [c EXCEPT !.consts = @ \cup {<<n, v>>}, !.defd = @ \cup {n}]]
      [] k = "bdef"  -> LET n == Pick(FreeBools(c)) IN
                        [s |-> [k |-> "bdef", s |-> n, c |-> GenC(1, c)], c |-> [c EXCEPT !.bools = @ \cup {n}, !.defd = @ \cup {n}]]
      [] k = "basg"  -> S([k |-> "basg", s |-> Pick(c.bools), c |-> GenC(1, c)])
      [] k = "umk"   -> LET n  == Pick(FreeSts(c))
                            c2 == c
                            f  == PickW(<< <<2, "copy">>, <<2, "lit">> >>)
                        IN [s |-> [k |-> "umk", s |-> n, form |-> f, from |-> Pick(c.sts), a |-> GenE(1, c2), b |-> GenE(1, c2)],
                            c |-> [c EXCEPT !.sts = @ \cup {n}, !.defd = @ \cup {n}]]
      [] k = "ucopy" -> LET d == Pick(IF c.pure THEN c.sts \ {"t"} ELSE c.sts) IN
                        S([k |-> "ucopy", s |-> d, from |-> Pick(c.sts \ {d})])
      [] k = "ufset" -> S([k |-> "ufset", s |-> Pick(c.sts \ {"t"}), f |-> Pick({"a", "b"}), op |-> Pick({"set", "add"}), e |-> GenE(1, c)])
      [] k = "ubump" -> IF c.qs # {} /\ Pick(1..3) = 1
                        THEN S([k |-> "ubump", via |-> "ptr", s |-> Pick(c.qs), e |-> GenE(1, c)])
                        ELSE S([k |-> "ubump", via |-> "val", s |-> Pick(c.sts), e |-> GenE(1, c)])
      [] k = "uprint" -> S([k |-> "uprint", s |-> Pick(c.sts \ {"t"})])
      [] k = "mkpu"  -> LET n == Pick(FreeQs(c)) IN
                        [s |-> [k |-> "mkpu", p |-> n, s |-> Pick(c.sts)], c |-> [c EXCEPT !.qs = @ \cup {n}, !.defd = @ \cup {n}]]
      [] k = "qfset" -> S([k |-> "qfset", p |-> Pick(c.qs), f |-> Pick({"a", "b"}), op |-> Pick({"set", "add"}), e |-> GenE(1, c)])
      [] k = "qcopy" -> S([k |-> "qcopy", p |-> Pick(c.qs), s |-> Pick(c.sts), form |-> Pick({"store", "load"})])
      [] k = "gscope" -> LET lab == <<"G1", "G2", "G3">>[Len(c.gotos) + 1] IN
                         S([k |-> "gscope", lab |-> lab, body |-> GenB(Pick(1..3), [Inner(c) EXCEPT !.gotos = Append(@, lab)])])
      [] k = "goto"  -> S([k |-> "goto", lab |-> Pick({c.gotos[i] : i \in 1..Len(c.gotos)})])
      [] k = "gloop" -> LET x  == Pick(FreeNames(c))
                            c1 == [Inner(c) EXCEPT !.rd = @ \cup {x}, !.wr = @ \cup {x}, !.loc = @ \cup {x}]
                        IN D(x, [k |-> "gloop", lab |-> "B", x |-> x, n |-> Pick(1..2), body |-> GenB(Pick(1..2), c1)])
      [] k = "mkmap" -> LET n  == Pick(FreeMaps(c))
                            c2 == c
                            f  == PickW(<< <<3, "lit">>, <<2, "make">>, <<1, "nil">> >>)
                            k1 == Pick(0..3)
                            ks == IF f # "lit" THEN <<>> ELSE IF Pick(1..2) = 1 THEN <<k1>> ELSE <<k1, (k1 + Pick(1..3)) % 4>>
                        IN [s |-> [k |-> "mkmap", s |-> n, form |-> f, ks |-> ks, es |-> [i \in 1..Len(ks) |-> GenE(1, c2)]],
                            c |-> [c EXCEPT !.maps = @ \cup {n}, !.defd = @ \cup {n}]]
      [] k = "mshare" -> LET n == Pick(FreeMaps(c)) IN
                        [s |-> [k |-> "mshare", s |-> n, from |-> Pick(c.maps)],
                         c |-> [c EXCEPT !.maps = @ \cup {n}, !.defd = @ \cup {n}]]
      [] k = "mset"  -> S([k |-> "mset", s |-> Pick(c.maps), i |-> GenKey(c), op |-> Pick({"set", "add"}), e |-> GenE(1, c)])
      [] k = "mdel"  -> S([k |-> "mdel", s |-> Pick(c.maps), i |-> GenKey(c)])
      [] k = "mok"   -> S([k |-> "mok", id |-> Pick(100..99999), s |-> Pick(c.maps), i |-> GenKey(c)])
      [] k = "printm" -> S([k |-> "printm", s |-> Pick(c.maps)])
      [] k = "msum"  -> S([k |-> "msum", s |-> Pick(c.maps), x |-> Pick(c.wr)])
      [] k = "sdef"  -> LET n == Pick(FreeStrs(c)) IN
                        [s |-> [k |-> "sdef", s |-> n, src |-> GenStr(c)],
                         c |-> [c EXCEPT !.strs = @ \cup {n}, !.defd = @ \cup {n}]]
      [] k = "sasg"  -> S([k |-> "sasg", s |-> Pick(c.strs), op |-> Pick({"set", "add"}), src |-> GenStr(c)])
      [] k = "sidx"  -> S([k |-> "sidx", x |-> Pick(c.wr), s |-> Pick(c.strs), ix |-> Pick(0..3)])
      [] k = "ssub"  -> LET n  == Pick(FreeStrs(c))
                            lo == Pick(0..2)
                        IN [s |-> [k |-> "ssub", s |-> n, from |-> Pick(c.strs), lo |-> lo, hi |-> lo + Pick(0..2)],
                            c |-> [c EXCEPT !.strs = @ \cup {n}, !.defd = @ \cup {n}]]
      [] k = "prints" -> S([k |-> "prints", s |-> Pick(c.strs)])
      [] k = "srng"  -> S([k |-> "srng", s |-> Pick(c.strs)])
      [] k = "tswitch" -> LET n == Pick(1..2)
                              c1 == [Inner(c) EXCEPT !.incase = TRUE]
                          IN S([k |-> "tswitch", cases |-> [i \in 1..n |-> [c |-> GenC(1, c), body |-> GenB(Pick(1..2), c1)]],
                                dflt |-> GenB(Pick(0..1), c1)])
      [] k = "ifinit" -> LET x  == Pick(FreeNames(c))
                             c1 == [Inner(c) EXCEPT !.rd = @ \cup {x}, !.wr = @ \cup {x}, !.loc = @ \cup {x}]
                         IN S([k |-> "ifinit", x |-> x, e |-> GenE(1, c), c |-> Cmp(Pick({"lt", "le", "eq", "ne"}), Var(x), Lit(Pick(0..5))),
                               th |-> GenB(Pick(1..2), c1), el |-> IF Pick(1..2) = 1 THEN GenB(1, c1) ELSE <<>>])
      [] k = "iswap" -> S([k |-> "iswap"])
      [] k = "mkptr" -> LET pn == Pick(FreePtrs(c)) IN
                        [s |-> [k |-> "mkptr", p |-> pn, x |-> Pick(c.wr)],
                         c |-> [c EXCEPT !.ptrs = @ \cup {pn}, !.defd = @ \cup {pn}]]
      [] k = "mksl"  -> LET n  == Pick(FreeSls(c))
                            c2 == c
                            es == IF Pick(1..2) = 1 THEN <<Lit(Pick(0..5)), Lit(Pick(0..5)), Lit(Pick(0..5))>>
                                  ELSE <<GenE(1, c2), GenLeaf(c2), Lit(Pick(0..5))>>
                        IN [s |-> [k |-> "mksl", s |-> n, es |-> es],
                            c |-> [c EXCEPT !.sls = @ \cup {n}, !.defd = @ \cup {n}]]
      [] k = "slshare" -> LET n == Pick(FreeSls(c)) IN
                        [s |-> [k |-> "slshare", s |-> n, from |-> Pick(c.sls)],
                         c |-> [c EXCEPT !.sls = @ \cup {n}, !.defd = @ \cup {n}]]
      [] k = "slset" -> S([k |-> "slset", s |-> Pick(c.sls), ix |-> Pick(0..2), op |-> Pick({"set", "add"}), e |-> GenE(1, c)])
      [] k = "printsl" -> S([k |-> "printsl", s |-> Pick(c.sls)])
      [] k = "pset"  -> S([k |-> "pset", p |-> Pick(c.ptrs), e |-> GenE(1, c)])
      [] k = "pop"   -> S([k |-> "pop", p |-> Pick(c.ptrs), op |-> Pick({"add", "sub"}), e |-> GenE(1, c)])
      [] k = "switch" -> LET n  == Pick(1..2)
                             vs == IF n = 1 THEN <<Pick(0..3)>> ELSE LET a == Pick(0..3) IN <<a, (a + Pick(1..3)) % 4>>
                             c1 == [Inner(c) EXCEPT !.incase = TRUE]
                             dpos == IF Pick(1..3) = 1 THEN Pick(0..n) ELSE n
                             \* a clause that is not the last one in source order may end with fallthrough
                             nofall == FALSE
                             falls == [i \in 1..n |-> ~nofall /\ (i < n \/ dpos = n) /\ Pick(1..4) = 1]
                             dfall == ~nofall /\ dpos < n /\ Pick(1..3) = 1
                         IN S([k |-> "switch", tag |-> GenE(1, c), dpos |-> dpos, dfall |-> dfall,
                               cases |-> [i \in 1..n |-> [v |-> vs[i], w |-> IF Pick(1..3) = 1 THEN vs[i] + 4 ELSE vs[i],
                                                          body |-> GenB(Pick(1..2), c1), fall |-> falls[i]]],
                               dflt |-> GenB(Pick(0..1), c1)])
      [] k = "brk"   -> S([k |-> "brk",  lab |-> IF Pick(1..2) = 1 THEN "" ELSE Pick({c.labs[i] : i \in 1..Len(c.labs)})])
      [] k = "cont"  -> S([k |-> "cont", lab |-> IF Pick(1..2) = 1 \/ InSwitchOfLoop(c) THEN "" ELSE Pick({c.labs[i] : i \in 1..Len(c.labs)})])
      [] k = "ret"   -> S(IF c.ret = "val" \/ (c.ret = "named" /\ Pick(1..2) = 1)
                          THEN [k |-> "ret", bare |-> FALSE, e |-> GenE(1, c)]
                          ELSE [k |-> "ret", bare |-> TRUE, e |-> Lit(0)])
      [] k = "mkclo" -> LET n   == Pick(FreeClos(c))
                            par == Pick(1..3) = 1
                            cb  == IF par THEN [c EXCEPT !.rd = @ \cup {"a"}, !.wr = @ \cup {"a"}] ELSE c
                        IN [s |-> [k |-> "mkclo", c |-> n, par |-> par, body |-> GenLitBody(cb)],
                            c |-> [c EXCEPT !.clos = @ \cup {n}, !.clos1 = IF par THEN @ \cup {n} ELSE @, !.defd = @ \cup {n}]]
      [] k = "appclo" -> S([k |-> "appclo", body |-> GenLitBody(c)])
      [] k = "defer" -> LET cl0 == c.clos \ c.clos1
                            f == PickW(<< <<4, "lit">>, <<IF c.fcall THEN 2 ELSE 0, "call">>, <<2, "print">>, <<1, "method">>,
                                          <<IF cl0 # {} THEN 2 ELSE 0, "clo">>, <<IF c.maps # {} THEN 1 ELSE 0, "mdel">>,
                                          <<IF c.ptrs # {} THEN 3 ELSE 0, "relp">>, <<IF c.qs # {} THEN 3 ELSE 0, "relq">>,
                                          <<IF c.sls # {} THEN 3 ELSE 0, "rels">>, <<IF c.maps # {} THEN 3 ELSE 0, "relm">>,
                                          <<1, "nilfn">> >>) IN
                        S(CASE f = "lit" -> [k |-> "defer", form |-> "lit", body |-> GenDeferBody(c), f |-> "", e |-> Lit(0)]
                            [] f = "method" -> (IF c.qs # {} /\ Pick(1..3) = 1
                                                THEN [k |-> "defer", form |-> "method", via |-> "ptr", s |-> Pick(c.qs), body |-> <<>>, f |-> "", e |-> GenE(1, c)]
                                                ELSE [k |-> "defer", form |-> "method", via |-> "val", s |-> Pick(c.sts), body |-> <<>>, f |-> "", e |-> GenE(1, c)])
                            [] f = "clo"  -> [k |-> "defer", form |-> "clo", s |-> Pick(cl0), body |-> <<>>, f |-> "", e |-> Lit(0)]
                            [] f = "nilfn" -> [k |-> "defer", form |-> "nilfn", s |-> "", body |-> <<>>, f |-> "", e |-> Lit(0)]
                            [] f = "mdel" -> [k |-> "defer", form |-> "mdel", s |-> Pick(c.maps), body |-> <<>>, f |-> "", e |-> GenKey(c)]
                            [] f \in {"relp", "relq", "rels", "relm"} ->
                                  [k |-> "defer", form |-> f, body |-> <<>>, f |-> "", e |-> Lit(0),
                                   s |-> Pick(CASE f = "relp" -> c.ptrs [] f = "relq" -> c.qs [] f = "rels" -> c.sls [] f = "relm" -> c.maps)]
                            [] OTHER -> [k |-> "defer", form |-> f, body |-> <<>>, f |-> IF f = "call" THEN "f" ELSE "", e |-> GenE(1, c)])
      [] k = "panic" -> S([k |-> "panic", e |-> Lit(Pick(6..9))])
      [] k = "fault" -> S([k |-> "fault", kind |-> Pick({"nilDeref", "index", "sliceBounds", "divZero", "nilMapWrite", "badAssert", "closeClosed"})])
      [] k = "recover" -> S([k |-> "recover", how |-> PickW(<< <<4, "direct">>, <<1, "helper">> >>), setr |-> c.rvar /\ Pick(1..2) = 1])
      [] k = "block" -> S([k |-> "block", body |-> GenB(Pick(1..2), Inner(c))])

GenB(n, c) ==
    IF n = 0 THEN <<>> ELSE
    LET h == GenS(c) IN
    \* nothing follows a statement that always leaves the block
    IF h.s.k \in {"brk", "cont", "ret", "panic", "fault", "goto"} THEN <<h.s>>
    \* a statement that introduces a map, slice, string or pointer is followed by at least three more,
    \* so that the new variable gets used (the weights of Kinds favour its uses once it is in scope)
    ELSE LET rest == IF h.s.k \in {"mkmap", "mksl", "sdef", "mkptr", "umk", "mkpu", "bdef", "imk", "mkch", "mkfv", "mkgen"} /\ n - 1 < 3 THEN 3 ELSE n - 1
         IN <<h.s>> \o GenB(rest, h.c)

\* a random program: g (pure, plain result), f (named result r, effects, may call g and
\* itself on a smaller argument), two (fixed, pure), and main
GenProg(z) ==
    LET cg  == [Ctx0 EXCEPT !.rd = {"g0", "g1", "p"}, !.wr = {"p"}, !.loc = {"p"}, !.pure = TRUE, !.fcall = FALSE, !.ret = "val"]
        cf  == [Ctx0 EXCEPT !.rd = {"g0", "g1", "p", "r"}, !.wr = {"g0", "g1", "p", "r"}, !.loc = {"p", "r"},
                            !.fcall = FALSE, !.ret = "named", !.rvar = TRUE]
        \* Profile "session": the statements of main are also evaluated one by one at the
        \* global scope of an interactive session, where a deferred call has no function to
        \* belong to: none in main's own activation (C11; TLC's CutIndependence finds the
        \* counterexample when this restriction is lifted)
        \* (lvl0: the statement list of main itself in a session program, whose statements are evaluated at the root level)
        cm  == [Ctx0 EXCEPT !.d = 3, !.top = (Profile = "session"), !.lvl0 = (Profile = "session")]
        fsM == Pick(1..3) = 1
        gB  == GenB(Pick(1..3), cg) \o << [k |-> "ret", bare |-> FALSE, e |-> GenE(1, cg)] >>
        rec == IF Pick(1..3) = 1
               THEN << [k |-> "if", c |-> Cmp("lt", Lit(0), Var("p")),
                        th |-> << IF Pick(1..2) = 1
                                  THEN [k |-> "asg", x |-> "r", e |-> CallE("f", Bin("sub", Var("p"), Lit(1)))]
                                  ELSE [k |-> "ret", bare |-> FALSE, e |-> CallE("f", Bin("sub", Var("p"), Lit(1)))] >>,
                        el |-> <<>>] >>
               ELSE <<>>
        fB  == GenB(Pick(1..3), cf) \o rec
               \o (IF Pick(1..2) = 1 THEN << [k |-> "block", body |-> GenB(Pick(1..2), Inner(cf))] >> ELSE <<>>)
        mB  == (IF fsM THEN << [k |-> "mkfs"] >> ELSE <<>>)
               \o GenB(Pick(3..7), [cm EXCEPT !.fs = fsM])
               \o (IF fsM THEN << [k |-> "callall"] >> ELSE <<>>)
               \o << [k |-> "printg"] >>
    IN [name |-> "", funcs |-> [f |-> [named |-> TRUE, body |-> fB], g |-> [named |-> FALSE, body |-> gB],
                   two |-> [named |-> TRUE, body |-> << [k |-> "ret2", a |-> Bin("add", Var("p"), Lit(1)), b |-> Bin("mul", Var("p"), Lit(2))] >>]],
        main |-> mB]

-------------------------------------------------------------------------------
VARIABLES prog, res
vars == <<prog, res>>

Empty == [name |-> "", funcs |-> [f |-> [named |-> TRUE, body |-> <<>>], g |-> [named |-> FALSE, body |-> << [k |-> "ret", bare |-> FALSE, e |-> Lit(0)] >>],
                     two |-> [named |-> TRUE, body |-> <<>>]], main |-> <<>>]

InitSim == prog = Empty /\ res = Run(Empty)
NextSim == /\ prog' = GenProg(prog)
           /\ res' = Run(prog')
SpecSim == InitSim /\ [][NextSim]_vars

-------------------------------------------------------------------------------
(* C06: the defer / panic / recover families, enumerated exhaustively.          *)
(* f's body is every sequence of N statements over a menu that contains every   *)
(* way of registering a deferred call (print with an argument fixed now, named  *)
(* function h, literal; in loops; nested), every recover placement (direct,     *)
(* through a helper, in a nested deferred call, absent), re-panics, explicit    *)
(* panics, every kind of run-time fault, updates of the named result; the       *)
(* caller is main directly, main with a recovering deferred call, or main       *)
(* through a function literal (call tree of depth 3).                            *)
CONSTANTS FamN,       \* statements in f's body
          FamFaults   \* run-time fault kinds in the menu
DLit(body)  == [k |-> "defer", form |-> "lit", body |-> body, f |-> "", e |-> Lit(0)]
DPrint(e)   == [k |-> "defer", form |-> "print", body |-> <<>>, f |-> "", e |-> e]
DCall(e)    == [k |-> "defer", form |-> "call", body |-> <<>>, f |-> "h", e |-> e]
Rec(how, s) == [k |-> "recover", how |-> how, setr |-> s]
PrintS(e)   == [k |-> "print", id |-> 0, e |-> e]
PanicS(v)   == [k |-> "panic", e |-> Lit(v)]
AsgS(x, e)  == [k |-> "asg", x |-> x, e |-> e]
For2(body)  == [k |-> "for", v |-> "i", n |-> 2, lab |-> "", body |-> body]
Blk(body)   == [k |-> "block", body |-> body]
DRef(f, v)  == [k |-> "defer", form |-> f, body |-> <<>>, f |-> "", e |-> Lit(0), s |-> v]

MenuF ==
    { PrintS(Lit(1)), AsgS("r", Lit(5)), [k |-> "inc", x |-> "g0", d |-> 1],
      DPrint(Var("g0")), DCall(Var("g0")),
      DLit(<<PrintS(Lit(2))>>),
      DLit(<<Rec("direct", TRUE)>>),
      DLit(<<Rec("helper", FALSE)>>),
      DLit(<<Rec("direct", FALSE), PanicS(7)>>),
      DLit(<<PanicS(7)>>),
      DLit(<<DLit(<<Rec("direct", FALSE)>>)>>),
      DLit(<<AsgS("r", Bin("add", Var("r"), Lit(10))), PrintS(Var("r"))>>),
      For2(<<DPrint(Var("i"))>>),
      PanicS(6),
      [k |-> "ret", bare |-> FALSE, e |-> Lit(9)],
      \* f calls itself once (f(1) -> f(0)): what follows unwinds through two consecutive frames of f
      [k |-> "if", c |-> Cmp("lt", Lit(0), Var("p")), th |-> << AsgS("r", CallE("f", Bin("sub", Var("p"), Lit(1)))) >>, el |-> <<>>],
      \* arguments of reference kinds are fixed at the defer statement too: the variable is re-assigned afterwards
      Blk(<< [k |-> "mkptr", p |-> "p1", x |-> "g0"], DRef("relp", "p1"), [k |-> "preasg", form |-> "p", p |-> "p1", x |-> "g1", s |-> ""] >>),
      Blk(<< [k |-> "mksl", s |-> "s1", es |-> <<Lit(1), Lit(2), Lit(3)>>], DRef("rels", "s1"),
             [k |-> "slreasg", form |-> "lit", s |-> "s1", from |-> "", es |-> <<Lit(4), Lit(5), Lit(6)>>] >>),
      Blk(<< [k |-> "mkmap", s |-> "m1", form |-> "lit", ks |-> <<0>>, es |-> <<Lit(7)>>], DRef("relm", "m1"),
             [k |-> "mreasg", form |-> "make", s |-> "m1", from |-> ""] >>) }
    \cup { [k |-> "fault", kind |-> kd] : kd \in FamFaults }
    \* the deferred call of a nil function value: registered like any other, it faults when the function ends
    \cup { DRef("nilfn", "") }
    \* a function literal held in a variable and deferred THROUGH the variable: recover() in its body stops the
    \* panic; the same literal merely called by a deferred literal does not
    \cup (IF ~ClobForms THEN {} ELSE
          { Blk(<< [k |-> "mkclo", c |-> "c1", par |-> FALSE, body |-> << Rec("direct", TRUE), [k |-> "ret", bare |-> FALSE, e |-> Lit(0)] >>],
                   DRef("clo", "c1") >>) })
    \cup { Blk(<< [k |-> "mkclo", c |-> "c1", par |-> FALSE, body |-> << Rec("direct", FALSE), [k |-> "ret", bare |-> FALSE, e |-> Lit(0)] >>],
                   DLit(<< [k |-> "discard", e |-> [k |-> "clo", c |-> "c1", args |-> <<>>]] >>) >>) }


HFunc == [named |-> TRUE, body |-> << [k |-> "print", id |-> 1, e |-> Var("p")], AsgS("r", Var("p")) >>]
TwoF  == [named |-> TRUE, body |-> << [k |-> "ret2", a |-> Bin("add", Var("p"), Lit(1)), b |-> Bin("mul", Var("p"), Lit(2))] >>]
GFunc == [named |-> FALSE, body |-> << [k |-> "ret", bare |-> FALSE, e |-> Var("p")] >>]

Mains ==
    { << PrintS(CallE("f", Lit(1))) >>,      \* also replayed as an interactive session
      << PrintS(CallE("f", Lit(1))), [k |-> "printg"] >>,
      << DLit(<<Rec("direct", FALSE)>>), PrintS(CallE("f", Lit(1))), [k |-> "printg"] >>,
      << DLit(<<Rec("direct", FALSE), [k |-> "printg"]>>),
         [k |-> "mkclo", c |-> "c1", par |-> FALSE, body |-> << AsgS("g1", CallE("f", Lit(1))), [k |-> "ret", bare |-> FALSE, e |-> Var("g1")] >>],
         PrintS([k |-> "clo", c |-> "c1", args |-> <<>>]), [k |-> "printg"] >> }

FamilyDefer ==
    { [name |-> "", funcs |-> [f |-> [named |-> TRUE, body |-> b], g |-> GFunc, two |-> TwoF, h |-> HFunc], main |-> m] :
        b \in [1..FamN -> MenuF], m \in Mains }

(* Pinned witnesses: one minimal program per known finding of the sequential core,  *)
(* replayed in every run so that the finding stays exercised while the random       *)
(* grammar excludes its construct.                                                   *)
WProg(n, fb, mb) == [name |-> n, funcs |-> [f |-> [named |-> TRUE, body |-> fb], g |-> GFunc, two |-> TwoF, h |-> HFunc], main |-> mb]
Witnesses ==
    { WProg("label-in-case-clause", <<>>,
            << [k |-> "switch", tag |-> Lit(1), dpos |-> 1, dfall |-> FALSE,
                cases |-> << [v |-> 1, w |-> 1, fall |-> FALSE,
                              body |-> << [k |-> "for", v |-> "i", n |-> 2, lab |-> "L1",
                                           body |-> << PrintS(Var("i")), [k |-> "brk", lab |-> "L1"] >>] >>] >>,
                dflt |-> <<>>], [k |-> "printg"] >>),
      WProg("condition-comparing-two-constants", <<>>,
            << [k |-> "if", c |-> Cmp("lt", Lit(3), Bin("sub", Lit(2), Lit(1))), th |-> <<PrintS(Lit(1))>>, el |-> <<PrintS(Lit(2))>>],
               [k |-> "printg"] >>),
      WProg("computed-index-in-logical-operand", <<>>,
            << [k |-> "if", c |-> [k |-> "and", l |-> Cmp("lt", [k |-> "idx", i |-> Var("g0")], Var("g1")), r |-> Cmp("eq", Var("g1"), Lit(2))],
                th |-> <<PrintS(Lit(1))>>, el |-> <<PrintS(Lit(2))>>], [k |-> "printg"] >>),
      WProg("loop-variable-assigned-in-body", <<>>,
            << For2(<< [k |-> "inc", x |-> "i", d |-> 1], PrintS(Var("i")) >>), [k |-> "printg"] >>),
      WProg("blank-assignment-of-a-call-result", <<>>,
            << [k |-> "mkclo", c |-> "c1", par |-> FALSE, body |-> << [k |-> "ret", bare |-> FALSE, e |-> Lit(3)] >>],
               [k |-> "blankcall", e |-> [k |-> "clo", c |-> "c1", args |-> <<>>]],
               [k |-> "mkclo", c |-> "c2", par |-> FALSE, body |-> << [k |-> "ret", bare |-> FALSE, e |-> Lit(4)] >>],
               [k |-> "printg"] >>),
      WProg("recover-in-a-loop-of-a-deferred-call",
            << DLit(<< For2(<< Rec("direct", FALSE) >>) >>), PanicS(6) >>,
            << PrintS(CallE("f", Lit(1))), [k |-> "printg"] >>),
      WProg("dereference-in-composite-literal-element", <<>>,
            << [k |-> "mkptr", p |-> "p1", x |-> "g0"],
               [k |-> "tlit", a |-> Lit(1), b |-> Bin("add", Lit(3), [k |-> "deref", p |-> "p1"])],
               [k |-> "printg"] >>),
      WProg("fallthrough-into-a-return-clause",
            << [k |-> "switch", tag |-> Var("g1"), dpos |-> 2, dfall |-> FALSE,
                cases |-> << [v |-> 5, w |-> 5, fall |-> TRUE, body |-> << AsgS("r", Lit(1)) >>],
                             [v |-> 2, w |-> 2, fall |-> FALSE, body |-> << [k |-> "ret", bare |-> TRUE, e |-> Lit(0)] >>] >>,
                dflt |-> <<>>] >>,
            << PrintS(CallE("f", Lit(1))), [k |-> "printg"] >>),
      \* known finding F-C06-11 / F-C01-11: recover() in a function literal held in a variable and deferred through it
      WProg("recover-in-a-literal-deferred-through-a-variable",
            << Blk(<< [k |-> "mkclo", c |-> "c1", par |-> FALSE, body |-> << Rec("direct", TRUE), [k |-> "ret", bare |-> FALSE, e |-> Lit(0)] >>],
                      DRef("clo", "c1") >>),
               PanicS(6) >>,
            << PrintS(CallE("f", Lit(1))), [k |-> "printg"] >>),
      WProg("main-local-named-like-a-package-variable", <<>>,
            << AsgS("g0", Bin("add", Var("g0"), Lit(4))),
               [k |-> "def", x |-> "g0", e |-> Bin("add", Var("g0"), Lit(1))],
               PrintS(Var("g0")), [k |-> "printg"] >>),
      WProg("loop-variable-in-deferred-literal",
            << For2(<<DLit(<<PrintS(Var("i"))>>)>>) >>,
            << PrintS(CallE("f", Lit(1))) >>) }

(* C01: directed families, enumerated exhaustively.                               *)
(* LoopFamily: every loop form whose variable can be observed, crossed with every *)
(* sequence of two body statements over a menu of observers and WRITERS of the     *)
(* loop variable (directly, through a pointer, from a closure, in a tuple          *)
(* assignment, op=), captures by closures called after the loop, deferred prints,  *)
(* continue.  The per-iteration copy of a loop variable (Go 1.22) and the carrying *)
(* of its value to the next iteration are decided here, not by luck of the draw.   *)
LoopMenu ==
    { PrintS(Var("i")), [k |-> "inc", x |-> "i", d |-> 1],
      [k |-> "opasg", x |-> "i", op |-> "add", e |-> Lit(1)],
      Blk(<< [k |-> "mkptr", p |-> "p1", x |-> "i"], [k |-> "pop", p |-> "p1", op |-> "add", e |-> Lit(1)] >>),
      Blk(<< [k |-> "mkclo", c |-> "c1", par |-> FALSE,
              body |-> << [k |-> "inc", x |-> "i", d |-> 1], [k |-> "ret", bare |-> FALSE, e |-> Var("i")] >>],
             [k |-> "discard", e |-> [k |-> "clo", c |-> "c1", args |-> <<>>]] >>),
      [k |-> "appclo", body |-> << [k |-> "ret", bare |-> FALSE, e |-> Var("i")] >>],
      [k |-> "asgidx", x |-> "i", form |-> "xfirst", a |-> Bin("add", Var("i"), Lit(1)), b |-> Var("i"), s |-> "", bare |-> FALSE],
      DPrint(Var("i")),
      \* a variable DEFINED in the body (a new variable at every execution of the := statement, whatever makes
      \* the body execute again: a loop clause or a backward goto), captured by a closure that is called after the loop
      Blk(<< [k |-> "def", x |-> "y", e |-> Bin("add", Var("i"), Lit(10))],
             [k |-> "appclo", body |-> << [k |-> "ret", bare |-> FALSE, e |-> Var("y")] >>] >>),
      Blk(<< [k |-> "def", x |-> "y", e |-> Bin("add", Var("i"), Lit(20))],
             [k |-> "appclo", body |-> << [k |-> "inc", x |-> "y", d |-> 1], [k |-> "ret", bare |-> FALSE, e |-> Var("y")] >>],
             [k |-> "opasg", x |-> "y", op |-> "add", e |-> Lit(5)] >>),
      [k |-> "cont", lab |-> ""] }
FamLoopKinds == {"for", "rng", "rngarr", "gloop"}
MkLoop(kd, body) ==
    CASE kd = "for"    -> [k |-> "for", v |-> "i", n |-> 3, lab |-> "", body |-> body]
      [] kd = "rng"    -> [k |-> "rng", v |-> "i", n |-> 3, lab |-> "", body |-> body]
      [] kd = "rngarr" -> [k |-> "rngarr", s |-> "", v |-> "i", vv |-> "vi", lab |-> "", body |-> body]
      [] kd = "gloop"  -> [k |-> "gloop", lab |-> "B", x |-> "i", n |-> 2, body |-> body]    \* i := 0; B: { body }; if i < 2 { i++; goto B }
\* the array ranged over is a COPY made when the loop starts: writers of the array in the body (an element,
\* op=, the swap, through a closure) against observers of the value variable and of the array itself
ArrMenu ==
    { PrintS(Var("vi")), PrintS(Bin("add", Var("vi"), Var("i"))),
      [k |-> "iset", i |-> Lit(1), e |-> Bin("add", Var("vi"), Lit(10))],
      [k |-> "iset", i |-> Bin("add", Var("i"), Lit(1)), e |-> Lit(40)],
      [k |-> "iop", i |-> Lit(1), e |-> Var("vi")],
      [k |-> "iop", i |-> Lit(0), e |-> Lit(3)],
      [k |-> "iswap"],
      [k |-> "appclo", body |-> << [k |-> "ret", bare |-> FALSE, e |-> Var("vi")] >>],
      [k |-> "opasg", x |-> "vi", op |-> "add", e |-> Lit(100)],
      [k |-> "printg"] }
LoopFamily ==
    { WProg("", <<>>, << [k |-> "mkfs"], MkLoop(q[1], <<q[2][1], q[2][2]>>), [k |-> "callall"], [k |-> "printg"] >>) :
        q \in {z \in FamLoopKinds \X [1..2 -> LoopMenu] :
                  z[1] = "gloop" => (z[2][1].k # "cont" /\ z[2][2].k # "cont")} }   \* continue needs a loop statement
    \cup
    { WProg("", <<>>, << [k |-> "mkfs"], MkLoop("rngarr", <<b[1], b[2], b[3]>>), [k |-> "callall"], [k |-> "printg"] >>) :
        b \in [1..3 -> ArrMenu] }

(* SwitchFamily: expression switches over a tag, with the default clause at every   *)
(* position, fallthrough out of every clause that is not last in source order, a   *)
(* case list, and every tag value that hits the first case, the second, the second *)
(* value of the list, or nothing.                                                   *)
SwBody(n) == << PrintS(Lit(n)) >>
SwitchFamily ==
    { WProg("", <<>>,
            << [k |-> "switch", tag |-> Bin("add", Var("g0"), Lit(tg - 1)), dpos |-> dp, dfall |-> df /\ dp < 2,
                cases |-> << [v |-> 1, w |-> IF lst THEN 5 ELSE 1, body |-> SwBody(1), fall |-> f1],
                             [v |-> 2, w |-> 2, body |-> SwBody(2), fall |-> f2 /\ dp = 2] >>,
                dflt |-> SwBody(9)],
               [k |-> "printg"] >>) :
        tg \in {1, 2, 5, 7}, dp \in 0..2, df \in BOOLEAN, f1 \in BOOLEAN, f2 \in BOOLEAN, lst \in BOOLEAN }

(* TupleFamily: tuple assignments with an index operand on the left that names the   *)
(* variable assigned in the same statement (x, C[x] = a, b and C[x], x = b, a), for an *)
(* array and for maps (literal, made, nil): the index is evaluated in the first phase.  *)
TupleFamily ==
    { WProg("", <<>>,
            << [k |-> "def", x |-> "x", e |-> Lit(x0)],
               [k |-> "mkmap", s |-> "m1", form |-> mf, ks |-> IF mf = "lit" THEN <<1>> ELSE <<>>, es |-> IF mf = "lit" THEN <<Lit(9)>> ELSE <<>>],
               [k |-> "asgidx", x |-> "x", form |-> fm, a |-> a, b |-> b, s |-> tgt, bare |-> br],
               [k |-> "asgidx", x |-> "x", form |-> fm, a |-> Bin("add", Var("x"), Lit(3)), b |-> Lit(8), s |-> tgt, bare |-> br],
               PrintS(Var("x")), [k |-> "printm", s |-> "m1"], [k |-> "printg"] >>) :
        x0 \in {0, 1}, mf \in {"lit", "make", "nil"}, fm \in {"xfirst", "afirst"}, tgt \in {"", "m1"},
        a \in {Bin("add", Var("x"), Lit(1)), Bin("add", Var("x"), Lit(2)), Lit(3)}, b \in {Var("x"), Lit(7)}, br \in BareForms }

\* the same left-hand sides fed by ONE call with two results (x, C[x] = two(e)): another lowering in the interpreter
TupleCallFamily ==
    { WProg("", <<>>,
            << [k |-> "def", x |-> "x", e |-> Lit(x0)],
               [k |-> "mkmap", s |-> "m1", form |-> mf, ks |-> IF mf = "lit" THEN <<1>> ELSE <<>>, es |-> IF mf = "lit" THEN <<Lit(9)>> ELSE <<>>],
               [k |-> "asgidxc", x |-> "x", form |-> fm, e |-> a, s |-> tgt],
               [k |-> "asgidxc", x |-> "x", form |-> fm, e |-> Bin("add", Var("x"), Lit(3)), s |-> tgt],
               PrintS(Var("x")), [k |-> "printm", s |-> "m1"], [k |-> "printg"] >>) :
        x0 \in {0, 1}, mf \in {"lit", "make", "nil"}, fm \in {"xfirst", "afirst"}, tgt \in TupleCallTargets,
        a \in {Bin("add", Var("x"), Lit(1)), Lit(3), Var("g1")} }
(* SelFamily: receive statements with an assignment in a select case. Every kind of operand on the left  *)
(* (variable, field, array element, pointer indirection, map entry - of a nil map too), with and without   *)
(* the ok operand, a clause body and a default clause, on a channel that holds a value, is empty (default  *)
(* taken, or nothing emitted: the program would block) or is closed; two such statements in sequence.       *)
SelDsts == {"var", "fld", "arr", "ptr", "map"}
SelFamily ==
    { WProg("", <<>>,
            << [k |-> "def", x |-> "x", e |-> Lit(3)],
               [k |-> "mkptr", p |-> "p1", x |-> "x"],
               [k |-> "mkmap", s |-> "m1", form |-> mf, ks |-> IF mf = "lit" THEN <<1>> ELSE <<>>, es |-> IF mf = "lit" THEN <<Lit(9)>> ELSE <<>>],
               [k |-> "mkch", s |-> "ch1"] >>
            \o (IF ns >= 1 THEN << [k |-> "chsend", s |-> "ch1", e |-> Lit(7)] >> ELSE <<>>)
            \o (IF cl THEN << [k |-> "chclose", s |-> "ch1"] >> ELSE <<>>)
            \o << [k |-> "chsel", id |-> 101, s |-> "ch1", form |-> d, x |-> (CASE d = "ptr" -> "p1" [] d = "map" -> "m1" [] OTHER -> "x"),
                   ok2 |-> ok, hb |-> hb, hd |-> hd],
                  [k |-> "chsel", id |-> 102, s |-> "ch1", form |-> d, x |-> (CASE d = "ptr" -> "p1" [] d = "map" -> "m1" [] OTHER -> "x"),
                   ok2 |-> ~ok, hb |-> hb, hd |-> TRUE],
                  PrintS(Var("x")), [k |-> "printm", s |-> "m1"], [k |-> "printg"] >>) :
        d \in SelDsts, mf \in {"lit", "nil"}, ns \in 0..1, cl \in BOOLEAN, ok \in BOOLEAN, hb \in BOOLEAN, hd \in BOOLEAN }
InitLoopFam == prog \in LoopFamily \cup SwitchFamily \cup TupleFamily \cup TupleCallFamily \cup SelFamily /\ res = Run(prog)
SpecLoopFam == InitLoopFam /\ [][UNCHANGED vars]_vars

InitFam == prog \in FamilyDefer /\ res = Run(prog)
InitWit == prog \in Witnesses /\ res = Run(prog)
SpecWit == InitWit /\ [][UNCHANGED vars]_vars
SpecFam == InitFam /\ [][UNCHANGED vars]_vars

-------------------------------------------------------------------------------
(* Model-level properties (C06 as state predicates over the defer event log).  *)
Finished == res.status \in {"ok", "panic"}
Regs == {i \in 1..Len(res.ev) : res.ev[i].t = "reg"}
Runs == {i \in 1..Len(res.ev) : res.ev[i].t = "run"}
\* every registered deferred call runs exactly once
ExactlyOnce ==
    Finished => \A i \in Regs : Cardinality({j \in Runs : res.ev[j].id = res.ev[i].id}) = 1
\* never before it is registered, and never one that was not registered
RunAfterReg ==
    \A j \in Runs : \E i \in Regs : i < j /\ res.ev[i].id = res.ev[j].id
\* within one activation, last registered runs first
LIFO ==
    Finished => \A a, b \in Regs :
        (a < b /\ res.ev[a].depth = res.ev[b].depth) =>
            \A x, y \in Runs : (res.ev[x].id = res.ev[a].id /\ res.ev[y].id = res.ev[b].id) => y < x
\* output only grows along the evaluation is implied by construction; status sanity:
StatusOK == res.status \in {"ok", "panic", "oor", "fuel"}

\* programs that leave the value range or do not terminate within the fuel are not handed over
Emit == Finished => PrintT(<<"BEH", ToJson([prog |-> prog, out |-> res.out, status |-> res.status, pval |-> res.pval,
                                            globals |-> res.globals, steps |-> res.steps])>>)
===============================================================================
