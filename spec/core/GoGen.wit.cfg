SPECIFICATION SpecWit
CONSTANTS Profile = "core" Pinned = TRUE FamN = 1 FamFaults = {}
INVARIANTS StatusOK ExactlyOnce RunAfterReg LIFO Emit
