-------------------------------- MODULE GoMem --------------------------------
(* C04 - values are copied or shared exactly as Go prescribes.                 *)
(*                                                                             *)
(* A small-step machine over a POOL of variables of nested composite types:    *)
(*                                                                             *)
(*   type S struct { N int; A [2]int; L []int; M map[string]int; P *int }      *)
(*   var a, b [2]int;  s, t S;  l, k []int;  ll [][]int;  as [2]S              *)
(*       ms map[string]S;  m map[string]int;  p, q *int;  ps *S;  i, j int     *)
(*       f1, f2 func() int;  e interface{}                                     *)
(*                                                                             *)
(* mem is ONE store of objects: the first NVars objects are the variables (in  *)
(* the order of Vars), later ones are heap objects (backing arrays of slices,  *)
(* maps, targets of new(T), private variables of closures).  The VALUE         *)
(* REPRESENTATION is the statement of the property's first sentence:           *)
(*   int            a TLA+ integer                                             *)
(*   array, struct  a TLA+ sequence of its components  -- BY VALUE: storing it *)
(*                  somewhere stores all of it, no identity                    *)
(*   slice          [k:"sl", obj, path, off, len, cap]: a window on the array  *)
(*                  found at path inside object obj (a heap array, or an array *)
(*                  that is (part of) a variable: a[:], s.A[:])                *)
(*   map            [k:"mp", id]   reference to a map object (0 = nil)         *)
(*   pointer        [k:"pt", obj, path]  a location (obj = 0: nil)             *)
(*   func value     [k:"fn", code, pl, cell] closure: code + captured cell or  *)
(*                  captured pool variable (by reference: place pl is          *)
(*                  evaluated when called);  [k:"mv", code, recv, ptr] method  *)
(*                  value: value receiver COPIED at bind time / pointer        *)
(*   interface{}    [k:"if", t, v] holds a COPY of the boxed value             *)
(* so one definition of "store value x at location loc" (WriteLoc) gives copy  *)
(* semantics for arrays and structs and sharing for the reference sorts, at    *)
(* every nesting depth.  What TLC checks on the model (TypeOK, WellFormed,     *)
(* CopyIndependence, ShareIdentity) states that this is indeed the case for    *)
(* every operation that moves a value.                                         *)
(*                                                                             *)
(* A PLACE is an expression  root selector*  ([r, sel]); selectors are         *)
(* integers: n >= 1 selects component / element / key n (1-based; field order  *)
(* N A L M P; keys 1 = "x", 2 = "y"), 0 dereferences a pointer.  The harness   *)
(* renders places with the static types (as[0].A[1], ps.L[0], *p, ms["x"].N).  *)
(*                                                                             *)
(* The module is generator and oracle: hist records the operations, obs the    *)
(* store after each of them (+ the values a step itself reports: ext).         *)
EXTENDS Integers, Sequences, FiniteSets, TLC, Json, Randomization

CONSTANTS MaxSteps,    \* bound on the length of a history
          Roots,       \* the variables of the pool operations may name (sub-pool of a family cfg)
          Kinds,       \* operation kinds enabled
          InitKind,    \* "zero" (all variables zero) | "rich" (populated, aliased pool)
          MaxSel,      \* maximal number of selectors of a place expression
          MaxIdx,      \* slice index selectors are 1..MaxIdx
          CopyTypes,   \* types T for which AssignVar / Swap of two places of type T are generated
          Excl,        \* names of the exclusions in force (random tiers): constructs of listed known findings
          EmitAt       \* 0: exhaustive cfg (every state is emitted); n: simulation cfg (histories of length n are emitted)

\* F-C04-1: a struct composite literal assigned to a struct VARIABLE replaces the variable's
\* storage in the interpreter (pointers taken before stop aliasing it).  Pinned in the
\* exhaustive tier, excluded from the random tier, where it would end every history it occurs in.
Excluded_F_C04_1 == "F_C04_1" \in Excl
\* F-C04-2: a value of a struct type with methods stored in an interface{} is not copied.
Excluded_F_C04_2 == "F_C04_2" \in Excl
\* F-C04-3: a method value keeps its receiver EXPRESSION and evaluates it when called: the
\* value receiver is not copied at bind time when the operand is addressable, and a pointer
\* receiver reached through a pointer variable follows later assignments to that variable.
Excluded_F_C04_3 == "F_C04_3" \in Excl

MaxLen == 4            \* the single-value growth operations stop at 4 elements (bounds every growing value)
MaxBig == 6            \* AppendN (several explicit values, unclipped) may reach this length
MaxCap == 8            \* ... and this capacity

(* Capacity of a reallocated slice.  The language leaves it to the implementation; what is  *)
(* stated here is the rule of the Go runtime the interpreter is compared with (runtime        *)
(* growslice + malloc size classes, go1.2x, 64-bit): the new length if it exceeds twice the   *)
(* old capacity, else twice the old capacity (below 256 elements), rounded up to a malloc    *)
(* size class.  The harness checks it against the native toolchain (a disagreement is a      *)
(* SPEC-ERROR, never a violation).  Elements: int = 8 bytes, []int header = 24 bytes.        *)
SizeClasses == <<8, 16, 24, 32, 48, 64, 80, 96, 112, 128, 144, 160, 176, 192, 208, 224, 240, 256,
                 288, 320, 352, 384, 416, 448, 480, 512>>
RoundUpSize(b) == SizeClasses[CHOOSE n \in 1..Len(SizeClasses) :
                                 SizeClasses[n] >= b /\ (n = 1 \/ SizeClasses[n - 1] < b)]
ESize(T) == IF T = "L" THEN 8 ELSE 24
GrowCap(T, oldcap, newlen) ==
    LET nc == IF newlen > 2 * oldcap THEN newlen ELSE 2 * oldcap
    IN RoundUpSize(nc * ESize(T)) \div ESize(T)

Vars == <<"a", "b", "s", "t", "l", "k", "ll", "as", "ms", "m", "p", "q", "ps", "i", "j", "f1", "f2", "e">>
NVars == Len(Vars)
Id(r) == CHOOSE n \in 1..NVars : Vars[n] = r
VType(r) ==
    CASE r \in {"a", "b"} -> "A"  [] r \in {"s", "t"} -> "S"  [] r \in {"l", "k"} -> "L"
      [] r = "ll" -> "LL" [] r = "as" -> "AS" [] r = "ms" -> "MS" [] r = "m" -> "M"
      [] r \in {"p", "q"} -> "PI" [] r = "ps" -> "PS" [] r \in {"i", "j"} -> "int"
      [] r \in {"f1", "f2"} -> "F" [] r = "e" -> "E"

-------------------------------------------------------------------------------
(* Values.                                                                     *)
SL(o, pth, off, len, cap) == [k |-> "sl", obj |-> o, path |-> pth, off |-> off, len |-> len, cap |-> cap]
MP(id)     == [k |-> "mp", id |-> id]
PT(o, pth) == [k |-> "pt", obj |-> o, path |-> pth]
NilL == SL(0, <<>>, 0, 0, 0)
NilP == PT(0, <<>>)
NilF == [k |-> "nil"]
ZeroS == <<0, <<0, 0>>, NilL, MP(0), NilP>>
Zero(T) ==
    CASE T = "int" -> 0 [] T = "A" -> <<0, 0>> [] T = "S" -> ZeroS [] T \in {"L", "LL"} -> NilL
      [] T = "AS" -> <<ZeroS, ZeroS>> [] T \in {"M", "MS"} -> MP(0) [] T \in {"PI", "PS"} -> NilP
      [] T \in {"F", "E"} -> NilF

\* component type; object types "arrI" / "arrL" (backing arrays) behave like arrays
Comp(T, n) ==
    CASE T = "A"  -> IF n \in 1..2 THEN "int" ELSE "none"
      [] T = "S"  -> IF n = 1 THEN "int" ELSE IF n = 2 THEN "A" ELSE IF n = 3 THEN "L"
                     ELSE IF n = 4 THEN "M" ELSE IF n = 5 THEN "PI" ELSE "none"
      [] T = "AS" -> IF n \in 1..2 THEN "S" ELSE "none"
      [] T \in {"L", "arrI"}  -> IF n >= 1 THEN "int" ELSE "none"
      [] T \in {"LL", "arrL"} -> IF n >= 1 THEN "L" ELSE "none"
      [] T = "MS" -> IF n \in 1..2 THEN "S" ELSE "none"
      [] T = "M"  -> IF n \in 1..2 THEN "int" ELSE "none"
      [] T = "PI" -> IF n = 0 THEN "int" ELSE "none"
      [] T = "PS" -> IF n = 0 THEN "S" ELSE "none"
      [] OTHER -> "none"
Selectors(T) ==
    CASE T \in {"A", "AS", "LL", "MS", "M"} -> 1..2 [] T = "S" -> 1..5 [] T = "L" -> 1..MaxIdx
      [] T \in {"PI", "PS"} -> {0} [] OTHER -> {}

RECURSIVE TypeAt(_, _)
TypeAt(T, sel) == IF sel = <<>> \/ T = "none" THEN T ELSE TypeAt(Comp(T, Head(sel)), Tail(sel))

RECURSIVE SelsFrom(_, _)
SelsFrom(T, d) ==
    {<<>>} \cup (IF d = 0 THEN {}
                 ELSE UNION {{<<n>> \o r : r \in SelsFrom(Comp(T, n), d - 1)} : n \in Selectors(T)})

Types == {"int", "A", "S", "L", "LL", "AS", "MS", "M", "PI", "PS", "F", "E"}
AllPlaces == UNION {{[r |-> r, sel |-> x] : x \in SelsFrom(VType(r), MaxSel)} : r \in Roots}
PlBy == [T \in Types |-> {pl \in AllPlaces : TypeAt(VType(pl.r), pl.sel) = T}]
Last(q) == q[Len(q)]
Front(q) == SubSeq(q, 1, Len(q) - 1)
HasDeref(pl) == \E x \in 1..Len(pl.sel) : pl.sel[x] = 0
\* type of the container the last selector selects from
ParentT(pl) == TypeAt(VType(pl.r), Front(pl.sel))

RECURSIVE GetPath(_, _), SetPath(_, _, _)
GetPath(v, pth) == IF pth = <<>> THEN v ELSE GetPath(v[Head(pth)], Tail(pth))
SetPath(v, pth, x) == IF pth = <<>> THEN x ELSE [v EXCEPT ![Head(pth)] = SetPath(v[Head(pth)], Tail(pth), x)]
WriteLoc(M, o, pth, x) == [M EXCEPT ![o] = SetPath(M[o], pth, x)]
ReadLoc(M, o, pth) == GetPath(M[o], pth)

\* element x (1-based) of slice value sl: where it lives, what it holds
ElemPath(sl, x) == Append(sl.path, sl.off + x)
Elem(M, sl, x) == ReadLoc(M, sl.obj, ElemPath(sl, x))
Elems(M, sl) == [x \in 1..sl.len |-> Elem(M, sl, x)]
RECURSIVE WriteElems(_, _, _, _)      \* store the sequence vs at elements from+1.. of sl
WriteElems(M, sl, from, vs) ==
    IF vs = <<>> THEN M
    ELSE WriteElems(WriteLoc(M, sl.obj, ElemPath(sl, from + 1), Head(vs)), sl, from + 1, Tail(vs))

(* Evaluation of a place: ok (no nil dereference, index < len, key present),  *)
(* addr (it denotes a location obj/path, i.e. it is addressable/assignable),   *)
(* val (what it holds), ty.                                                    *)
Bad == [ok |-> FALSE, addr |-> FALSE, obj |-> 0, path |-> <<>>, val |-> 0, ty |-> "none"]
RECURSIVE Walk(_, _, _)
Walk(st, sel, M) ==
    IF ~st.ok \/ sel = <<>> THEN st
    ELSE LET n == Head(sel)  T == st.ty  v == st.val  U == Comp(T, n) IN
      IF U = "none" THEN Bad
      ELSE CASE T \in {"A", "S", "AS"} ->
                 Walk([ok |-> TRUE, addr |-> st.addr, obj |-> st.obj, path |-> Append(st.path, n), val |-> v[n], ty |-> U], Tail(sel), M)
             [] T \in {"L", "LL"} ->
                 IF n <= v.len
                 THEN Walk([ok |-> TRUE, addr |-> TRUE, obj |-> v.obj, path |-> ElemPath(v, n), val |-> Elem(M, v, n), ty |-> U], Tail(sel), M)
                 ELSE Bad
             [] T \in {"PI", "PS"} ->
                 IF v.obj # 0
                 THEN Walk([ok |-> TRUE, addr |-> TRUE, obj |-> v.obj, path |-> v.path, val |-> ReadLoc(M, v.obj, v.path), ty |-> U], Tail(sel), M)
                 ELSE Bad
             [] T \in {"M", "MS"} ->
                 IF v.id # 0 /\ M[v.id][n].p
                 THEN Walk([ok |-> TRUE, addr |-> FALSE, obj |-> 0, path |-> <<>>, val |-> M[v.id][n].v, ty |-> U], Tail(sel), M)
                 ELSE Bad
Rd(M, pl) == Walk([ok |-> TRUE, addr |-> TRUE, obj |-> Id(pl.r), path |-> <<>>, val |-> M[Id(pl.r)], ty |-> VType(pl.r)], pl.sel, M)
Put(M, w, x) == WriteLoc(M, w.obj, w.path, x)     \* w: an addressable evaluation

-------------------------------------------------------------------------------
(* Initial pools.                                                              *)
ZeroMem == [n \in 1..NVars |-> Zero(VType(Vars[n]))]
EntS(pr, v) == [p |-> pr, v |-> v]
\* the "rich" pool, as built by the prologue of the rendered program:
\*   a = {1,2}; b = {3,4}; l = make([]int,3,4) = 1 2 3; k = l[1:3]; m = {"x":1}; i = 1
\*   s = S{5, {6,7}, l[:2], m, &i}; ll = [][]int{l[:2], {8,9}}; as = [2]S{s, {N:3}}
\*   ms = {"x": s}; p = &a[0]; ps = &s
RichS == <<5, <<6, 7>>, SL(NVars + 1, <<>>, 0, 2, 4), MP(NVars + 2), PT(Id("i"), <<>>)>>
RichVar(r) ==
    CASE r = "a" -> <<1, 2>> [] r = "b" -> <<3, 4>> [] r = "s" -> RichS
      [] r = "l" -> SL(NVars + 1, <<>>, 0, 3, 4) [] r = "k" -> SL(NVars + 1, <<>>, 1, 2, 3)
      [] r = "ll" -> SL(NVars + 4, <<>>, 0, 2, 2)
      [] r = "as" -> <<RichS, <<3, <<0, 0>>, NilL, MP(0), NilP>>>>
      [] r = "ms" -> MP(NVars + 5) [] r = "m" -> MP(NVars + 2)
      [] r = "p" -> PT(Id("a"), <<1>>) [] r = "ps" -> PT(Id("s"), <<>>) [] r = "i" -> 1
      [] OTHER -> Zero(VType(r))
RichMem == [n \in 1..NVars |-> RichVar(Vars[n])] \o
           << <<1, 2, 3, 0>>,                                        \* NVars+1 backing array of l, k, s.L, ll[0]
              <<EntS(TRUE, 1), EntS(FALSE, 0)>>,                     \* NVars+2 map m = s.M
              <<8, 9>>,                                              \* NVars+3 backing array of ll[1]
              <<SL(NVars + 1, <<>>, 0, 2, 4), SL(NVars + 3, <<>>, 0, 2, 2)>>,   \* NVars+4 backing array of ll
              <<EntS(TRUE, RichS), EntS(FALSE, ZeroS)>> >>           \* NVars+5 map ms
RichTy == [n \in 1..NVars |-> VType(Vars[n])] \o <<"arrI", "mapI", "arrI", "arrL", "mapS">>

VARIABLES mem,    \* the store
          mty,    \* type of every object of the store (for the typed invariants)
          hist,   \* operations so far
          obs,    \* predicted observation after each operation: [ext, mem]
          last,   \* the last operation (part of the VIEW: edge coverage)
          chk     \* what the last operation claims to have copied / shared (for the invariants)
vars == <<mem, mty, hist, obs, last, chk>>
\* the depth is part of the VIEW: the step bound and NewVal depend on it (hist itself is hidden)
View == <<mem, last, Len(hist)>>

NoChk == [c |-> "none"]
Init ==
    /\ mem = (IF InitKind = "rich" THEN RichMem ELSE ZeroMem)
    /\ mty = (IF InitKind = "rich" THEN RichTy ELSE [n \in 1..NVars |-> VType(Vars[n])])
    /\ hist = <<>> /\ obs = <<>> /\ last = [k |-> "init"] /\ chk = NoChk

\* the value written by the step being taken (depends on the depth only, so that
\* histories of equal length reaching the same sharing structure merge)
NewVal == 11 + Len(hist)

-------------------------------------------------------------------------------
(* Operations.  Inst(kind) is the set of enabled instances of a kind in the    *)
(* current state (operation records, all with the same fields so that the      *)
(* harness reads them uniformly); Eff(op) is what the instance does: the new   *)
(* store, the values the step reports (ext) and the copy/share claim (chk).    *)
NoPl == [r |-> "", sel |-> <<>>]
Op(kd) == [k |-> kd, d |-> NoPl, s |-> NoPl, v |-> 0, i |-> 0, j |-> 0, n |-> 0, x |-> "", ds |-> <<>>, ss |-> <<>>]
Res(M2, T2, ext, c, op) == [mem |-> M2, mty |-> T2, ext |-> ext, chk |-> c, op |-> op]

\* ev is the evaluation of every place expression in the current store, computed once
\* per state (EvalAll) and handed down: ev[pl] = Rd(mem, pl)
EvalAll == [pl \in AllPlaces \cup {NoPl} |-> IF pl = NoPl THEN Bad ELSE Rd(mem, pl)]
AddrE(ev, pl) == ev[pl].ok /\ ev[pl].addr
EndsDeref(pl) == pl.sel # <<>> /\ Last(pl.sel) = 0
Pl(T) == PlBy[T]
Min(x, y) == IF x <= y THEN x ELSE y
ValueTypes == {"int", "A", "S", "AS"}
ChkMove(T, d, s, val) == [c |-> (IF T \in ValueTypes THEN "copy" ELSE "share"), T |-> T, d |-> d, s |-> s, val |-> val]
RECURSIVE Fold(_, _)
Fold(r, q) == IF q = <<>> THEN r ELSE Fold(r * 3 + Head(q), Tail(q))
FirstInt(T) == IF T = "AS" THEN <<1, 1>> ELSE <<1>>

SameLoc(X, Y) == X.obj = Y.obj /\ X.path = Y.path
TupleTypes == {"int", "A", "S", "L", "PI"}
El(c, n) == [r |-> c.r, sel |-> Append(c.sel, n)]
\* int places (of the family's place set) that denote the location of element n of the slice at place c
AlLoc(ev, c, n) == {q \in Pl("int") : AddrE(ev, q) /\ ev[q].obj = ev[c].val.obj /\ ev[q].path = ElemPath(ev[c].val, n)}

Inst(kd, ev) ==
  CASE kd = "AssignVar" ->
        UNION {{[Op(kd) EXCEPT !.d = pr[1], !.s = pr[2], !.x = T] :
                  pr \in {q \in Pl(T) \X Pl(T) : q[1] # q[2] /\ ~EndsDeref(q[1]) /\ ~EndsDeref(q[2])
                                                  /\ AddrE(ev, q[1]) /\ ev[q[2]].ok}} : T \in CopyTypes}
    [] kd = "Deref" ->
        UNION {{[Op(kd) EXCEPT !.d = pr[1], !.s = pr[2], !.x = T] :
                  pr \in {q \in Pl(T) \X Pl(T) : q[1] # q[2] /\ ~EndsDeref(q[1]) /\ EndsDeref(q[2])
                                                  /\ (T = "int" => q[1].sel = <<>>)
                                                  /\ AddrE(ev, q[1]) /\ ev[q[2]].ok}} : T \in {"int", "S"}}
    [] kd = "SetThroughPtr" ->
        {[Op(kd) EXCEPT !.d = d, !.v = NewVal, !.x = "int"] : d \in {q \in Pl("int") : HasDeref(q) /\ AddrE(ev, q)}}
        \cup {[Op(kd) EXCEPT !.d = pr[1], !.s = pr[2], !.x = "S"] :
                  pr \in {q \in Pl("S") \X Pl("S") : EndsDeref(q[1]) /\ ~EndsDeref(q[2]) /\ AddrE(ev, q[1]) /\ ev[q[2]].ok}}
    [] kd = "SetField" ->
        {[Op(kd) EXCEPT !.d = d, !.v = NewVal] :
            d \in {q \in Pl("int") : q.sel # <<>> /\ ~HasDeref(q) /\ ParentT(q) = "S" /\ AddrE(ev, q)}}
    [] kd = "SetElem" ->
        {[Op(kd) EXCEPT !.d = d, !.v = NewVal] :
            d \in {q \in Pl("int") : q.sel # <<>> /\ ~HasDeref(q) /\ ParentT(q) \in {"A", "L"} /\ AddrE(ev, q)}}
    [] kd = "SetLit" ->     \* D = [2]int{v, v+1} / D = S{N: v, A: [2]int{v, 0}}
        UNION {{[Op(kd) EXCEPT !.d = d, !.v = NewVal, !.x = T] :
                  d \in {q \in Pl(T) : AddrE(ev, q) /\ ~(Excluded_F_C04_1 /\ T = "S" /\ q.sel = <<>>)}} : T \in {"A", "S"}}
    [] kd = "SetMapEntry" ->
        {[Op(kd) EXCEPT !.d = pr[1], !.i = pr[2], !.v = NewVal, !.x = "int"] :
            pr \in {q \in Pl("M") \X (1..2) : ev[q[1]].ok /\ ev[q[1]].val.id # 0}}
        \cup {[Op(kd) EXCEPT !.d = pr[1], !.i = pr[2], !.s = pr[3], !.x = "S"] :
            pr \in {q \in Pl("MS") \X (1..2) \X Pl("S") : ev[q[1]].ok /\ ev[q[1]].val.id # 0 /\ ev[q[3]].ok}}
        \cup {[Op(kd) EXCEPT !.d = pr[1], !.i = pr[2], !.v = NewVal, !.x = "mod"] :
            pr \in {q \in Pl("MS") \X (1..2) : ev[q[1]].ok /\ ev[q[1]].val.id # 0 /\ mem[ev[q[1]].val.id][q[2]].p}}
    [] kd = "MapDelete" ->
        {[Op(kd) EXCEPT !.d = pr[1], !.i = pr[2], !.x = TypeAt(VType(pr[1].r), pr[1].sel)] :
            pr \in {q \in (Pl("M") \cup Pl("MS")) \X (1..2) : ev[q[1]].ok}}
    [] kd = "MapLookup" ->
        {[Op(kd) EXCEPT !.d = pr[1], !.i = pr[2], !.v = NewVal, !.x = TypeAt(VType(pr[1].r), pr[1].sel)] :
            pr \in {q \in (Pl("M") \cup Pl("MS")) \X (1..2) : ev[q[1]].ok}}
    [] kd = "Append" ->
        {[Op(kd) EXCEPT !.d = d, !.v = NewVal, !.n = ev[d].val.len + 1,
                        !.j = (IF ev[d].val.len < ev[d].val.cap THEN 0 ELSE 1)] :
            d \in {q \in Pl("L") : AddrE(ev, q) /\ ev[q].val.len < MaxLen}}
    [] kd = "AppendLL" ->
        {[Op(kd) EXCEPT !.d = pr[1], !.s = pr[2], !.n = ev[pr[1]].val.len + 1,
                        !.j = (IF ev[pr[1]].val.len < ev[pr[1]].val.cap THEN 0 ELSE 1)] :
            pr \in {q \in Pl("LL") \X Pl("L") : AddrE(ev, q[1]) /\ ev[q[2]].ok /\ ev[q[1]].val.len < MaxLen}}
    [] kd = "AppendSlice" ->
        {[Op(kd) EXCEPT !.d = pr[1], !.s = pr[2], !.n = ev[pr[1]].val.len + ev[pr[2]].val.len,
                        !.j = (IF ev[pr[1]].val.len + ev[pr[2]].val.len <= ev[pr[1]].val.cap THEN 0 ELSE 1)] :
            pr \in {q \in Pl("L") \X Pl("L") : AddrE(ev, q[1]) /\ ev[q[2]].ok /\ ev[q[2]].val.len >= 1
                                               /\ ev[q[1]].val.len + ev[q[2]].val.len <= MaxLen}}
    [] kd = "DeleteIdx" ->
        {[Op(kd) EXCEPT !.d = pr[1], !.i = pr[2]] :
            pr \in {q \in Pl("L") \X (0..(MaxLen - 1)) : AddrE(ev, q[1]) /\ q[2] < ev[q[1]].val.len}}
    [] kd = "Copy" ->
        {[Op(kd) EXCEPT !.d = pr[1], !.s = pr[2], !.i = pr[3], !.j = pr[4]] :
            pr \in {q \in Pl("L") \X Pl("L") \X (0..1) \X (0..1) : ev[q[1]].ok /\ ev[q[2]].ok
                      /\ ev[q[1]].val.len >= 1 /\ ev[q[2]].val.len >= 1}}
    [] kd = "Slice2" ->
        {[Op(kd) EXCEPT !.d = pr[1], !.s = pr[2], !.i = pr[3], !.j = pr[4], !.x = "L"] :
            pr \in {q \in Pl("L") \X Pl("L") \X (0..1) \X (0..MaxCap) : AddrE(ev, q[1]) /\ ev[q[2]].ok
                      /\ q[3] <= q[4] /\ q[4] <= ev[q[2]].val.cap}}
        \cup {[Op(kd) EXCEPT !.d = pr[1], !.s = pr[2], !.i = pr[3], !.j = pr[4], !.x = "A"] :
            pr \in {q \in Pl("L") \X Pl("A") \X (0..1) \X (0..2) : AddrE(ev, q[1]) /\ AddrE(ev, q[2]) /\ q[3] <= q[4]}}
    [] kd = "Slice3" ->
        {[Op(kd) EXCEPT !.d = pr[1], !.s = pr[2], !.i = pr[3], !.j = pr[4], !.n = pr[5], !.x = "L"] :
            pr \in {q \in Pl("L") \X Pl("L") \X (0..1) \X (0..MaxLen) \X (0..MaxLen) : AddrE(ev, q[1]) /\ ev[q[2]].ok
                      /\ q[3] <= q[4] /\ q[4] <= q[5] /\ q[5] <= ev[q[2]].val.cap
                      /\ q[5] \in {q[4], ev[q[2]].val.cap}}}
        \cup {[Op(kd) EXCEPT !.d = pr[1], !.s = pr[2], !.i = pr[3], !.j = pr[4], !.n = pr[5], !.x = "A"] :
            pr \in {q \in Pl("L") \X Pl("A") \X (0..1) \X (0..2) \X (0..2) : AddrE(ev, q[1]) /\ AddrE(ev, q[2])
                      /\ q[3] <= q[4] /\ q[4] <= q[5]}}
    [] kd = "Make" ->
        {[Op(kd) EXCEPT !.d = pr[1], !.i = pr[2][1], !.j = pr[2][2], !.x = "L"] :
            pr \in {q \in Pl("L") \X {<<0, 0>>, <<0, 2>>, <<2, 2>>, <<1, 3>>, <<2, 4>>} : AddrE(ev, q[1])}}
        \cup UNION {{[Op(kd) EXCEPT !.d = d, !.v = NewVal, !.x = T] : d \in {q \in Pl(T) : AddrE(ev, q)}} :
                      T \in {"M", "MS", "LL", "PI", "PS"}}
    [] kd = "AddrOf" ->
        UNION {{[Op(kd) EXCEPT !.d = pr[1], !.s = pr[2], !.x = T[1]] :
                  pr \in {q \in Pl(T[1]) \X Pl(T[2]) : AddrE(ev, q[1]) /\ AddrE(ev, q[2]) /\ ~EndsDeref(q[2])}} :
                  T \in {<<"PI", "int">>, <<"PS", "S">>}}
    [] kd = "Swap" ->
        UNION {{[Op(kd) EXCEPT !.d = pr[1], !.s = pr[2], !.x = T] :
                  pr \in {q \in Pl(T) \X Pl(T) : q[1] # q[2] /\ AddrE(ev, q[1]) /\ AddrE(ev, q[2])
                            /\ (T = "int" => (q[1].r = q[2].r /\ Len(q[1].sel) = Len(q[2].sel)
                                              /\ (q[1].sel # <<>> => Front(q[1].sel) = Front(q[2].sel)))
                                             \/ (q[1].sel = <<>> /\ q[2].sel = <<>>))}} :
                  T \in CopyTypes \cup {"int"}}
    [] kd = "IdxAssign" ->
        {[Op(kd) EXCEPT !.d = pr[1], !.s = [r |-> pr[2], sel |-> <<>>], !.i = pr[3], !.v = NewVal, !.x = pr[4]] :
            pr \in {q \in (Pl("A") \cup Pl("L")) \X ({"i", "j"} \cap Roots) \X (0..1) \X {"ia", "ai"} :
                      /\ AddrE(ev, q[1]) /\ mem[Id(q[2])] >= 0
                      /\ mem[Id(q[2])] < (IF ev[q[1]].ty = "A" THEN 2 ELSE ev[q[1]].val.len)}}
    [] kd = "RebindAssign" ->
        {[Op(kd) EXCEPT !.d = pr[1], !.s = pr[2], !.v = NewVal, !.x = "sl"] :
            pr \in {q \in Pl("L") \X Pl("L") : q[1] # q[2] /\ AddrE(ev, q[1]) /\ ev[q[2]].ok /\ ev[q[1]].val.len >= 1}}
        \cup {[Op(kd) EXCEPT !.d = pr[1], !.s = pr[2], !.v = NewVal, !.x = "pt"] :
            pr \in {q \in Pl("PI") \X Pl("int") : AddrE(ev, q[1]) /\ ev[q[1]].val.obj # 0 /\ AddrE(ev, q[2]) /\ ~EndsDeref(q[2])}}
    [] kd = "PassByValue" ->
        UNION {{[Op(kd) EXCEPT !.s = s, !.v = NewVal, !.x = T] :
                  s \in {q \in Pl(T) : ev[q].ok /\ (T = "PI" => ev[q].val.obj # 0)}} :
                  T \in {"A", "S", "AS", "L", "PI"}}
    [] kd = "ReturnComposite" ->
        UNION {{[Op(kd) EXCEPT !.d = pr[1], !.s = pr[2], !.v = NewVal, !.x = T] :
                  pr \in {q \in Pl(T) \X Pl(T) : q[1] # q[2] /\ AddrE(ev, q[1]) /\ AddrE(ev, q[2])}} : T \in {"A", "S", "AS"}}
    [] kd = "RangeArray" ->
        UNION {{[Op(kd) EXCEPT !.s = pr[1], !.j = pr[2], !.v = NewVal, !.x = T] :
                  pr \in {q \in Pl(T) \X (0..1) : AddrE(ev, q[1])}} : T \in {"A", "AS"}}
    [] kd = "RangeSlice" ->
        {[Op(kd) EXCEPT !.s = pr[1], !.v = NewVal, !.x = pr[2]] :
            pr \in {q \in Pl("L") \X {"set", "shrink"} : AddrE(ev, q[1]) /\ ev[q[1]].val.len >= 1}}
    [] kd = "Capture" ->
        {[Op(kd) EXCEPT !.d = pr[1], !.s = pr[2], !.x = "ref"] :
            pr \in {q \in Pl("F") \X Pl("int") : AddrE(ev, q[2])}}
        \cup UNION {{[Op(kd) EXCEPT !.d = pr[1], !.s = pr[2], !.x = T] :
                  pr \in {q \in Pl("F") \X Pl(T) : ev[q[2]].ok /\ (T = "L" => ev[q[2]].val.len >= 1)}} :
                  T \in {"A", "S", "L"}}
    [] kd = "CallFunc" ->
        {[Op(kd) EXCEPT !.d = f] :
            f \in {q \in Pl("F") : LET fv == ev[q].val IN
                     /\ fv.k # "nil"
                     /\ (fv.k = "fn" /\ fv.code = "ref") => (Rd(mem, fv.pl).ok /\ Rd(mem, fv.pl).addr)}}
    [] kd = "Box" ->
        IF "e" \notin Roots THEN {}
        ELSE UNION {{[Op(kd) EXCEPT !.s = s, !.x = T] : s \in {q \in Pl(T) : ev[q].ok}} :
                      T \in (IF Excluded_F_C04_2 THEN {"A", "L"} ELSE {"A", "S", "L"})}
    [] kd = "Unbox" ->
        IF "e" \notin Roots \/ mem[Id("e")].k = "nil" THEN {}
        ELSE {[Op(kd) EXCEPT !.d = d, !.s = [r |-> "e", sel |-> <<>>], !.x = mem[Id("e")].t] :
                d \in {q \in Pl(mem[Id("e")].t) : AddrE(ev, q)}}
    [] kd = "BindMV" ->
        {[Op(kd) EXCEPT !.d = pr[1], !.s = pr[2], !.x = "sum"] :
            pr \in {q \in Pl("F") \X Pl("S") : ev[q[2]].ok /\ (Excluded_F_C04_3 => ~ev[q[2]].addr)}}
        \cup {[Op(kd) EXCEPT !.d = pr[1], !.s = pr[2], !.x = "pinc"] :
            pr \in {q \in Pl("F") \X Pl("S") : AddrE(ev, q[2]) /\ (Excluded_F_C04_3 => ~HasDeref(q[2]))}}
    [] kd = "AppendN" ->   \* D = append(S, v1, .., vk): several explicit values, result NOT clipped, D may differ from S
        {[Op(kd) EXCEPT !.d = pr[1], !.s = pr[2], !.n = pr[3], !.v = NewVal, !.x = "L"] :
            pr \in {q \in Pl("L") \X Pl("L") \X (1..4) : AddrE(ev, q[1]) /\ ev[q[2]].ok
                      /\ ev[q[2]].val.len + q[3] <= MaxBig
                      /\ (ev[q[2]].val.len + q[3] > ev[q[2]].val.cap =>
                              GrowCap("L", ev[q[2]].val.cap, ev[q[2]].val.len + q[3]) <= MaxCap)}}
        \cup {[Op(kd) EXCEPT !.d = pr[1], !.s = pr[2], !.ss = <<pr[3]>>, !.n = pr[4], !.x = "LL"] :
            pr \in {q \in Pl("LL") \X Pl("LL") \X Pl("L") \X (1..4) : AddrE(ev, q[1]) /\ ev[q[2]].ok /\ ev[q[3]].ok
                      /\ ev[q[2]].val.len + q[4] <= MaxBig
                      /\ (ev[q[2]].val.len + q[4] > ev[q[2]].val.cap =>
                              GrowCap("LL", ev[q[2]].val.cap, ev[q[2]].val.len + q[4]) <= MaxCap)}}
    [] kd = "Tuple" ->
        \* tuple assignments whose right-hand operands reach, through OTHER access paths (pointers,
        \* shared or overlapping slices, pointer-to-struct fields), the storage the left-hand operands overwrite
        LET AD(T) == {q \in Pl(T) : AddrE(ev, q)}
            Al(T, d) == {q \in AD(T) : SameLoc(ev[q], ev[d])}
            \* places whose location has another access path
            Multi(T) == {d \in AD(T) : \E q \in AD(T) : q # d /\ SameLoc(ev[q], ev[d])}
            \* exhaustive cfgs enumerate every instance; simulation cfgs draw the aliased operand first
            \* (the instance set of the whole pool is too large to build at every step)
            Pick(X) == IF EmitAt = 0 \/ X = {} THEN X ELSE {RandomElement(X)}
        IN  \* D1, D2 = <alias of D2>, <alias of D1>   (at least one through another path)
            UNION {UNION {{[Op(kd) EXCEPT !.ds = <<dd[1], dd[2]>>, !.ss = <<sp[1], sp[2]>>, !.x = "swap2"] :
                             sp \in {q \in Al(T, dd[2]) \X Al(T, dd[1]) : q[1] # dd[2] \/ q[2] # dd[1]}} :
                          dd \in {q \in (Pick(Multi(T)) \X AD(T)) \cup (AD(T) \X Pick(Multi(T))) :
                                    ~SameLoc(ev[q[1]], ev[q[2]])}} : T \in TupleTypes}
            \* D1, D2 = v, <alias of D1>
            \cup UNION {{[Op(kd) EXCEPT !.ds = <<dd[1], dd[2]>>, !.ss = <<NoPl, s2>>, !.v = NewVal, !.x = "shift"] :
                             s2 \in Al("int", dd[1]) \ {dd[1]}} :
                          dd \in {q \in Pick(Multi("int")) \X AD("int") : ~SameLoc(ev[q[1]], ev[q[2]])}}
            \* C[0], C[1], C[2] = <alias of C[1]>, <alias of C[2]>, <alias of C[0]>
            \cup UNION {{[Op(kd) EXCEPT !.ds = <<El(c, 1), El(c, 2), El(c, 3)>>, !.ss = <<sp[1], sp[2], sp[3]>>, !.x = "rot3"] :
                             sp \in {q \in AlLoc(ev, c, 2) \X AlLoc(ev, c, 3) \X AlLoc(ev, c, 1) :
                                       q[1] # El(c, 2) \/ q[2] # El(c, 3) \/ q[3] # El(c, 1)}} :
                          c \in Pick({q \in Pl("L") : ev[q].ok /\ ev[q].val.len >= 3})}
    [] kd = "SetLitSelf" ->
        \* D = [2]int{D[1], D[0]}  (i = 0)  |  D = [2]int{1: D[0]}  (i = 1)  |  D = S{N: D.A[0], A: [2]int{D.A[1], D.N}}  (x = "S"):
        \* the elements of the literal are read from D before D is assigned
        UNION {{[Op(kd) EXCEPT !.d = pr[1], !.x = T, !.i = pr[2]] :
                  pr \in {q \in Pl(T) \X (0..1) : AddrE(ev, q[1]) /\ (T = "S" => q[2] = 0)}} : T \in {"A", "S"}}
    [] kd = "RecvAssign" ->
        \* ch := make(chan T, 1); ch <- S; D = <-ch  (x: also "D, ok = <-ch"): a received value is STORED INTO the
        \* variable D like any other assigned value (pointers to D and closures over D keep referring to it)
        UNION {{[Op(kd) EXCEPT !.d = pr[1], !.s = pr[2], !.x = T, !.j = pr[3]] :
                  pr \in {q \in Pl(T) \X Pl(T) \X (0..1) : q[1] # q[2] /\ ~EndsDeref(q[2]) /\ AddrE(ev, q[1]) /\ ev[q[2]].ok}} :
                  T \in CopyTypes \cap {"A", "S", "L", "AS", "PI"}}
    [] kd = "AppendAl" ->
        \* D = append(S[:i], S[n1], S[n2]): the element operands are read before anything is appended, although
        \* the append (in place when the capacity allows) overwrites the elements they name
        {[Op(kd) EXCEPT !.d = pr[1], !.s = pr[2], !.i = pr[3], !.ss = <<El(pr[2], pr[4][1]), El(pr[2], pr[4][2])>>, !.n = pr[3] + 2, !.x = "L"] :
            pr \in {q \in Pl("L") \X Pl("L") \X (0..1) \X ((1..MaxIdx) \X (1..MaxIdx)) :
                      /\ AddrE(ev, q[1]) /\ ev[q[2]].ok /\ q[4][1] # q[4][2]
                      /\ q[4][1] <= ev[q[2]].val.len /\ q[4][2] <= ev[q[2]].val.len
                      /\ El(q[2], q[4][1]) \in AllPlaces /\ El(q[2], q[4][2]) \in AllPlaces
                      /\ (q[3] + 2 > ev[q[2]].val.cap => GrowCap("L", ev[q[2]].val.cap, q[3] + 2) <= MaxCap)}}
    [] kd = "LoopDefine" ->
        \* for n := 0; n < 2; n++ { x := S; x[n] = v; D[n] = x[:] }   (S an array; for a struct S: x.A[n] = v; D[n] = x.A[:])
        \* every execution of x := S declares a NEW variable: the slices kept from the two iterations
        \* are views of two different arrays
        UNION {{[Op(kd) EXCEPT !.d = pr[1], !.s = pr[2], !.v = NewVal, !.x = T] :
                  pr \in {q \in Pl("LL") \X Pl(T) : ev[q[1]].ok /\ ev[q[1]].val.len >= 2 /\ ev[q[2]].ok}} : T \in {"A", "S"}}
    [] kd = "MapTuple" ->   \* A["x"], A["y"] = B["y"], B["x"]  (B may be the same map through another path)
        UNION {{[Op(kd) EXCEPT !.d = pr[1], !.s = pr[2], !.x = T] :
                  pr \in {q \in Pl(T) \X Pl(T) : ev[q[1]].ok /\ ev[q[2]].ok /\ ev[q[1]].val.id # 0}} : T \in {"M", "MS"}}
    [] OTHER -> {}

-------------------------------------------------------------------------------
NewId(M) == Len(M) + 1
\* append in place when there is spare capacity (the write lands in the shared backing
\* array, beyond the length of the slice), else reallocate.  The capacity Go gives a
\* reallocated slice is implementation-defined: the rendered statement clips the result
\* of a reallocating append to its length (append(x, v)[:n:n]), and so does the model.
AppendVals(M, T2, D, vs, aty, op) ==
    LET sl == D.val  n == sl.len + Len(vs) IN
    IF n <= sl.cap
    THEN Res(Put(WriteElems(M, sl, sl.len, vs), D, [sl EXCEPT !.len = n]), T2, <<>>, NoChk, op)
    ELSE Res(Put(Append(M, Elems(M, sl) \o vs), D, SL(NewId(M), <<>>, 0, n, n)), Append(T2, aty), <<>>, NoChk, op)

\* D = append(S, vs...) unclipped: in place (into S's backing array, beyond its length) when the
\* values fit, else a new array of capacity GrowCap, the spare elements zero
AppendTo(M, T2, D, S, vs, T, op) ==
    LET sl == S.val  n == sl.len + Len(vs) IN
    IF n <= sl.cap
    THEN Res(Put(WriteElems(M, sl, sl.len, vs), D, [sl EXCEPT !.len = n]), T2, <<>>, NoChk, op)
    ELSE LET c == GrowCap(T, sl.cap, n) IN
         Res(Put(Append(M, Elems(M, sl) \o vs \o [x \in 1..(c - n) |-> (IF T = "L" THEN 0 ELSE NilL)]), D,
                 SL(NewId(M), <<>>, 0, n, c)),
             Append(T2, IF T = "L" THEN "arrI" ELSE "arrL"), <<>>, NoChk, op)

\* the two phases of an assignment: locs and vals were all determined first; the stores happen left to right
RECURSIVE StoreAll(_, _, _)
StoreAll(M, locs, vals) ==
    IF locs = <<>> THEN M ELSE StoreAll(Put(M, Head(locs), Head(vals)), Tail(locs), Tail(vals))

SetEntry(M, id, key, ent) == [M EXCEPT ![id] = [M[id] EXCEPT ![key] = ent]]

\* what the callee of PassByValue does to its parameter x (a copy) -- only the writes
\* through the reference components of x reach the caller
PassS(M, x, v) ==
    LET M1 == IF x[3].len > 0 THEN WriteLoc(M, x[3].obj, ElemPath(x[3], 1), v) ELSE M
        M2 == IF x[5].obj # 0 THEN WriteLoc(M1, x[5].obj, x[5].path, ReadLoc(M1, x[5].obj, x[5].path) + 1) ELSE M1
    IN IF x[4].id # 0 THEN SetEntry(M2, x[4].id, 2, EntS(TRUE, v)) ELSE M2

Eff(op, ev) ==
  LET M == mem  kd == op.k  D == ev[op.d]  S == ev[op.s]  v == op.v IN
  CASE kd \in {"AssignVar", "Deref", "RecvAssign"} -> Res(Put(M, D, S.val), mty, <<>>, ChkMove(op.x, op.d, op.s, S.val), op)
    [] kd = "AppendAl" ->
        AppendTo(M, mty, D, [S EXCEPT !.val = [S.val EXCEPT !.len = op.i]], [x \in 1..Len(op.ss) |-> Rd(M, op.ss[x]).val], "L", op)
    [] kd = "Unbox" -> Res(Put(M, D, M[Id("e")].v), mty, <<>>, NoChk, op)
    [] kd = "SetThroughPtr" ->
        IF op.x = "int" THEN Res(Put(M, D, v), mty, <<>>, NoChk, op)
        ELSE Res(Put(M, D, S.val), mty, <<>>, ChkMove("S", op.d, op.s, S.val), op)
    [] kd \in {"SetField", "SetElem"} -> Res(Put(M, D, v), mty, <<>>, NoChk, op)
    [] kd = "SetLit" -> Res(Put(M, D, (IF op.x = "A" THEN <<v, v + 1>> ELSE [ZeroS EXCEPT ![1] = v, ![2] = <<v, 0>>])), mty, <<>>, NoChk, op)
    [] kd = "SetLitSelf" ->
        LET x == D.val IN
        Res(Put(M, D, (IF op.x = "A" THEN (IF op.i = 0 THEN <<x[2], x[1]>> ELSE <<0, x[1]>>)
                       ELSE [ZeroS EXCEPT ![1] = x[2][1], ![2] = <<x[2][2], x[1]>>])), mty, <<>>, NoChk, op)
    [] kd = "AppendN" ->
        IF op.x = "L" THEN AppendTo(M, mty, D, S, [x \in 1..op.n |-> v + x - 1], "L", op)
        ELSE AppendTo(M, mty, D, S, [x \in 1..op.n |-> Rd(M, op.ss[1]).val], "LL", op)
    [] kd = "Tuple" ->
        Res(StoreAll(M, [x \in 1..Len(op.ds) |-> Rd(M, op.ds[x])],
                        [x \in 1..Len(op.ss) |-> IF op.ss[x] = NoPl THEN v ELSE Rd(M, op.ss[x]).val]), mty, <<>>, NoChk, op)
    [] kd = "MapTuple" ->
        LET a == D.val.id  b == S.val.id
            zero == IF op.x = "M" THEN 0 ELSE ZeroS
            rdb(key) == IF b # 0 /\ M[b][key].p THEN M[b][key].v ELSE zero
        IN Res(SetEntry(SetEntry(M, a, 1, EntS(TRUE, rdb(2))), a, 2, EntS(TRUE, rdb(1))), mty, <<>>, NoChk, op)
    [] kd = "SetMapEntry" ->
        LET mid == D.val.id IN
       (CASE op.x = "int" -> Res(SetEntry(M, mid, op.i, EntS(TRUE, v)), mty, <<>>, NoChk, op)
          [] op.x = "S"   -> Res(SetEntry(M, mid, op.i, EntS(TRUE, S.val)), mty, <<>>, NoChk, op)
          [] op.x = "mod" -> LET old == M[mid][op.i].v IN
                             Res(SetEntry(M, mid, op.i, EntS(TRUE, [old EXCEPT ![1] = v, ![2] = <<v, old[2][2]>>])), mty, <<>>, NoChk, op))
    [] kd = "MapDelete" ->
        IF D.val.id = 0 THEN Res(M, mty, <<>>, NoChk, op)
        ELSE Res(SetEntry(M, D.val.id, op.i, EntS(FALSE, IF op.x = "M" THEN 0 ELSE ZeroS)), mty, <<>>, NoChk, op)
    [] kd = "MapLookup" ->
        LET mid == D.val.id
            ok == mid # 0 /\ M[mid][op.i].p
            x  == IF ok THEN M[mid][op.i].v ELSE (IF op.x = "M" THEN 0 ELSE ZeroS)
        IN  \* MS: the looked-up struct is a copy; the step mutates it (x.A[0] = v) and reports x.N*3 + x.A[0] + x.A[1]
            Res(M, mty, <<(IF op.x = "M" THEN x ELSE x[1] * 3 + v + x[2][2]), (IF ok THEN 1 ELSE 0)>>, NoChk, op)
    [] kd = "Append" -> AppendVals(M, mty, D, <<v>>, "arrI", op)
    [] kd = "AppendLL" -> AppendVals(M, mty, D, <<S.val>>, "arrL", op)
    [] kd = "AppendSlice" -> AppendVals(M, mty, D, Elems(M, S.val), "arrI", op)
    [] kd = "DeleteIdx" ->
        LET sl == D.val  vs == [x \in 1..(sl.len - op.i - 1) |-> Elem(M, sl, op.i + 1 + x)] IN
        Res(Put(WriteElems(M, sl, op.i, vs), D, [sl EXCEPT !.len = @ - 1]), mty, <<>>, NoChk, op)
    [] kd = "Copy" ->
        LET n == Min(D.val.len - op.i, S.val.len - op.j)
            vs == [x \in 1..n |-> Elem(M, S.val, op.j + x)]
        IN Res(WriteElems(M, D.val, op.i, vs), mty, <<n>>, NoChk, op)
    [] kd \in {"Slice2", "Slice3"} ->
        LET lo == op.i  hi == op.j
            base == IF op.x = "L" THEN S.val ELSE SL(S.obj, S.path, 0, 2, 2)
            mx == IF kd = "Slice3" THEN op.n ELSE base.cap
            r  == IF base.obj = 0 THEN NilL ELSE SL(base.obj, base.path, base.off + lo, hi - lo, mx - lo)
        IN Res(Put(M, D, r), mty, <<>>, NoChk, op)
    [] kd = "Make" ->
       (CASE op.x = "L"  -> Res(Put(Append(M, [x \in 1..op.j |-> 0]), D, SL(NewId(M), <<>>, 0, op.i, op.j)), Append(mty, "arrI"), <<>>, NoChk, op)
          [] op.x = "M"  -> Res(Put(Append(M, <<EntS(FALSE, 0), EntS(FALSE, 0)>>), D, MP(NewId(M))), Append(mty, "mapI"), <<>>, NoChk, op)
          [] op.x = "MS" -> Res(Put(Append(M, <<EntS(FALSE, ZeroS), EntS(FALSE, ZeroS)>>), D, MP(NewId(M))), Append(mty, "mapS"), <<>>, NoChk, op)
          [] op.x = "LL" -> Res(Put(Append(M, <<NilL, NilL>>), D, SL(NewId(M), <<>>, 0, 2, 2)), Append(mty, "arrL"), <<>>, NoChk, op)
          [] op.x = "PI" -> Res(Put(Append(M, 0), D, PT(NewId(M), <<>>)), Append(mty, "int"), <<>>, NoChk, op)
          [] op.x = "PS" -> Res(Put(Append(M, [ZeroS EXCEPT ![1] = v]), D, PT(NewId(M), <<>>)), Append(mty, "S"), <<>>, NoChk, op))
    [] kd = "AddrOf" -> Res(Put(M, D, PT(S.obj, S.path)), mty, <<>>, NoChk, op)
    [] kd = "Swap" ->    \* both locations and both values are determined first, then the stores happen left to right
        Res(Put(Put(M, D, S.val), S, D.val), mty, <<>>, NoChk, op)
    [] kd = "IdxAssign" ->   \* I, C[I] = n, v  (or C[I], I = v, n): the index operand is the OLD value of I
        LET old == M[Id(op.s.r)]
            M1 == IF D.ty = "A" THEN WriteLoc(M, D.obj, Append(D.path, old + 1), v)
                  ELSE WriteLoc(M, D.val.obj, ElemPath(D.val, old + 1), v)
        IN Res(WriteLoc(M1, Id(op.s.r), <<>>, op.i), mty, <<>>, NoChk, op)
    [] kd = "RebindAssign" ->
        IF op.x = "sl"      \* L, L[0] = K, v : the element of the OLD L is written
        THEN LET sl == D.val IN Res(WriteLoc(Put(M, D, S.val), sl.obj, ElemPath(sl, 1), v), mty, <<>>, NoChk, op)
        ELSE                \* P, *P = &X, v : the OLD target of P is written
             LET old == D.val IN Res(WriteLoc(Put(M, D, PT(S.obj, S.path)), old.obj, old.path, v), mty, <<>>, NoChk, op)
    [] kd = "PassByValue" ->
        LET x == S.val  pc == [c |-> "pass", T |-> op.x, s |-> op.s, val |-> x] IN
       (CASE op.x = "A"  -> Res(M, mty, <<v * 3 + x[2]>>, pc, op)
          [] op.x = "S"  -> Res(PassS(M, x, v), mty, <<v * 3 + x[2][1]>>, pc, op)
          [] op.x = "AS" -> Res((IF x[2][3].len > 0 THEN WriteLoc(M, x[2][3].obj, ElemPath(x[2][3], 1), v) ELSE M),
                                mty, <<v * 3 + x[2][1]>>, pc, op)
          [] op.x = "L"  -> Res((IF x.len > 0 THEN WriteLoc(M, x.obj, ElemPath(x, 1), v) ELSE M), mty, <<x.len>>, NoChk, op)
          [] op.x = "PI" -> Res(WriteLoc(M, x.obj, x.path, v), mty, <<v>>, NoChk, op))
    [] kd = "ReturnComposite" ->  \* D = func() T { r := S; S.<first int> = v; return r }()
        Res(Put(WriteLoc(M, S.obj, S.path \o FirstInt(op.x), v), D, S.val), mty, <<>>, ChkMove(op.x, op.d, op.s, S.val), op)
    [] kd = "LoopDefine" ->
        LET x  == S.val
            pa == IF op.x = "A" THEN <<>> ELSE <<2>>                       \* where the array is inside x
            o1 == NewId(M)
            o2 == o1 + 1
            M1 == Append(Append(M, SetPath(x, Append(pa, 1), v)), SetPath(x, Append(pa, 2), v))
        IN Res(WriteElems(M1, D.val, 0, <<SL(o1, pa, 0, 2, 2), SL(o2, pa, 0, 2, 2)>>),
               mty \o (IF op.x = "A" THEN <<"arrI", "arrI">> ELSE <<"S", "S">>), <<>>, NoChk, op)
    [] kd = "RangeArray" ->   \* body writes the second element at the first iteration
        LET x == S.val
            seen1 == IF op.x = "A" THEN x[1] ELSE x[1][1]
            old2  == IF op.x = "A" THEN x[2] ELSE x[2][1]
            seen2 == IF op.j = 1 THEN v ELSE old2       \* range &S iterates over the array itself, range S over a copy
            wp == IF op.x = "A" THEN <<2>> ELSE <<2, 1>>
        IN Res(WriteLoc(M, S.obj, S.path \o wp, v), mty, <<Fold(0, <<seen1, seen2>>)>>,
               [c |-> "range", T |-> op.x, s |-> op.s, val |-> x, ptr |-> op.j, seen |-> <<seen1, seen2>>], op)
    [] kd = "RangeSlice" ->
        LET sl == S.val IN
        IF op.x = "set"
        THEN LET M1 == IF sl.len > 1 THEN WriteLoc(M, sl.obj, ElemPath(sl, 2), v) ELSE M IN
             Res(M1, mty, <<Fold(0, Elems(M1, sl))>>, NoChk, op)
        ELSE Res(Put(M, S, [sl EXCEPT !.len = 1]), mty, <<Fold(0, Elems(M, sl))>>, NoChk, op)
    [] kd = "Capture" ->
        IF op.x = "ref" THEN Res(Put(M, D, [k |-> "fn", code |-> "ref", pl |-> op.s, cell |-> 0]), mty, <<>>, NoChk, op)
        ELSE Res(Put(Append(M, S.val), D, [k |-> "fn", code |-> op.x, pl |-> NoPl, cell |-> NewId(M)]), Append(mty, op.x), <<>>,
                 [c |-> "hid", T |-> op.x, s |-> op.s, val |-> S.val, o |-> NewId(M)], op)
    [] kd = "CallFunc" ->
        LET fv == D.val IN
        IF fv.k = "fn" THEN
         (CASE fv.code = "ref" -> LET P == Rd(M, fv.pl) IN Res(Put(M, P, P.val + 5), mty, <<P.val + 5>>, NoChk, op)
            [] fv.code = "A" -> LET x == M[fv.cell] IN
                                Res(WriteLoc(M, fv.cell, <<1>>, x[1] + 5), mty, <<(x[1] + 5) * 3 + x[2]>>, NoChk, op)
            [] fv.code = "S" -> LET x == M[fv.cell]
                                    M1 == WriteLoc(M, fv.cell, <<1>>, x[1] + 5)
                                    M2 == IF x[3].len > 0 THEN WriteLoc(M1, x[3].obj, ElemPath(x[3], 1), Elem(M1, x[3], 1) + 1) ELSE M1
                                IN Res(M2, mty, <<ReadLoc(M2, fv.cell, <<1>>) * 3 + ReadLoc(M2, fv.cell, <<2, 1>>)>>, NoChk, op)
            [] fv.code = "L" -> LET sl == M[fv.cell] IN
                                Res(WriteLoc(M, sl.obj, ElemPath(sl, 1), Elem(M, sl, 1) + 5), mty, <<Elem(M, sl, 1) + 5>>, NoChk, op))
        ELSE IF fv.code = "sum"
             THEN LET x == fv.recv IN
                  Res(M, mty, <<x[1] * 3 + x[2][1] + (IF x[3].len > 0 THEN Elem(M, x[3], 1) ELSE 0)>>, NoChk, op)
             ELSE LET nv == ReadLoc(M, fv.ptr.obj, Append(fv.ptr.path, 1)) + 5 IN
                  Res(WriteLoc(M, fv.ptr.obj, Append(fv.ptr.path, 1), nv), mty, <<nv>>, NoChk, op)
    [] kd = "Box" -> Res(WriteLoc(M, Id("e"), <<>>, [k |-> "if", t |-> op.x, v |-> S.val]), mty, <<>>,
                         [c |-> "hid", T |-> op.x, s |-> op.s, val |-> S.val, o |-> Id("e")], op)
    [] kd = "BindMV" ->
        IF op.x = "sum" THEN Res(Put(M, D, [k |-> "mv", code |-> "sum", recv |-> S.val, ptr |-> NilP]), mty, <<>>,
                                 [c |-> "hid", T |-> "S", s |-> op.s, val |-> S.val, o |-> D.obj], op)
        ELSE Res(Put(M, D, [k |-> "mv", code |-> "pinc", recv |-> ZeroS, ptr |-> PT(S.obj, S.path)]), mty, <<>>, NoChk, op)

Do(op, ev) ==
    \E r \in {Eff(op, ev)} :
    /\ mem' = r.mem /\ mty' = r.mty
    /\ hist' = Append(hist, r.op)
    /\ obs' = Append(obs, [ext |-> r.ext, mem |-> r.mem])
    /\ last' = r.op
    /\ chk' = r.chk

Act(kd, ev) == kd \in Kinds /\ \E op \in Inst(kd, ev) : Do(op, ev)

\* one action per operation of the property's list
AssignVar(ev) == Act("AssignVar", ev)            Deref(ev) == Act("Deref", ev)
SetLit(ev) == Act("SetLit", ev)
SetField(ev) == Act("SetField", ev)              SetElem(ev) == Act("SetElem", ev)
SetThroughPtr(ev) == Act("SetThroughPtr", ev)    SetMapEntry(ev) == Act("SetMapEntry", ev)
MapDelete(ev) == Act("MapDelete", ev)            MapLookup(ev) == Act("MapLookup", ev)
AppendOne(ev) == Act("Append", ev)               AppendLL(ev) == Act("AppendLL", ev)
AppendSlice(ev) == Act("AppendSlice", ev)        DeleteIdx(ev) == Act("DeleteIdx", ev)
CopyOp(ev) == Act("Copy", ev)                    Slice2(ev) == Act("Slice2", ev)
Slice3(ev) == Act("Slice3", ev)                  Make(ev) == Act("Make", ev)
AddrOf(ev) == Act("AddrOf", ev)                  Swap(ev) == Act("Swap", ev)
IdxAssign(ev) == Act("IdxAssign", ev)            RebindAssign(ev) == Act("RebindAssign", ev)
PassByValue(ev) == Act("PassByValue", ev)        ReturnComposite(ev) == Act("ReturnComposite", ev)
RangeArray(ev) == Act("RangeArray", ev)          RangeSlice(ev) == Act("RangeSlice", ev)
Capture(ev) == Act("Capture", ev)                CallFunc(ev) == Act("CallFunc", ev)
Box(ev) == Act("Box", ev)                        Unbox(ev) == Act("Unbox", ev)
BindMV(ev) == Act("BindMV", ev)
AppendN(ev) == Act("AppendN", ev)         Tuple(ev) == Act("Tuple", ev)
MapTuple(ev) == Act("MapTuple", ev)        LoopDefine(ev) == Act("LoopDefine", ev)
RecvAssign(ev) == Act("RecvAssign", ev)    AppendAl(ev) == Act("AppendAl", ev)
SetLitSelf(ev) == Act("SetLitSelf", ev)

AllKinds == {"AssignVar", "Deref", "SetLit", "SetField", "SetElem", "SetThroughPtr", "SetMapEntry", "MapDelete", "MapLookup",
             "Append", "AppendLL", "AppendSlice", "DeleteIdx", "Copy", "Slice2", "Slice3", "Make", "AddrOf", "Swap",
             "IdxAssign", "RebindAssign", "PassByValue", "ReturnComposite", "RangeArray", "RangeSlice", "Capture",
             "CallFunc", "Box", "Unbox", "BindMV", "AppendN", "Tuple", "MapTuple", "LoopDefine", "RecvAssign", "AppendAl", "SetLitSelf"}

Next ==
    /\ Len(hist) < MaxSteps
    /\ \E ev \in {EvalAll} :
        \/ AssignVar(ev) \/ Deref(ev) \/ SetField(ev) \/ SetElem(ev) \/ SetThroughPtr(ev) \/ SetMapEntry(ev)
        \/ MapDelete(ev) \/ MapLookup(ev) \/ AppendOne(ev) \/ AppendLL(ev) \/ AppendSlice(ev) \/ DeleteIdx(ev)
        \/ CopyOp(ev) \/ Slice2(ev) \/ Slice3(ev) \/ Make(ev) \/ AddrOf(ev) \/ Swap(ev) \/ IdxAssign(ev)
        \/ RebindAssign(ev) \/ PassByValue(ev) \/ ReturnComposite(ev) \/ RangeArray(ev) \/ RangeSlice(ev)
        \/ Capture(ev) \/ CallFunc(ev) \/ Box(ev) \/ Unbox(ev) \/ BindMV(ev) \/ SetLit(ev)
        \/ AppendN(ev) \/ Tuple(ev) \/ MapTuple(ev) \/ LoopDefine(ev) \/ RecvAssign(ev) \/ AppendAl(ev) \/ SetLitSelf(ev)

\* simulation: the kind is drawn first, then the instance (TLC's uniform choice among
\* successor STATES would be dominated by the kinds with many instances)
NextSim ==
    /\ Len(hist) < MaxSteps
    /\ \E ev \in {EvalAll} : \E kd \in {RandomElement(Kinds)} : \E I \in {Inst(kd, ev)} :
          IF I # {} THEN \E op \in {RandomElement(I)} : Do(op, ev)
          ELSE \E J \in {Inst("Make", ev)} : J # {} /\ \E op \in {RandomElement(J)} : Do(op, ev)

Spec    == Init /\ [][Next]_vars
SpecSim == Init /\ [][NextSim]_vars

-------------------------------------------------------------------------------
(* What TLC checks on the model itself.                                        *)
RECURSIVE ValOK(_, _, _, _)
ValOK(v, T, M, TY) ==
  CASE T = "int" -> v \in Int
    [] T = "A"   -> Len(v) = 2 /\ \A n \in 1..2 : v[n] \in Int
    [] T = "S"   -> Len(v) = 5 /\ \A n \in 1..5 : ValOK(v[n], Comp("S", n), M, TY)
    [] T = "AS"  -> Len(v) = 2 /\ \A n \in 1..2 : ValOK(v[n], "S", M, TY)
    [] T \in {"L", "LL"} ->
         /\ v.k = "sl"
         /\ IF v.obj = 0 THEN v = NilL
            ELSE /\ v.obj \in 1..Len(M)
                 /\ TypeAt(TY[v.obj], v.path) \in (IF T = "L" THEN {"A", "arrI"} ELSE {"arrL"})
    [] T \in {"M", "MS"} ->
         v.k = "mp" /\ (v.id = 0 \/ (v.id \in 1..Len(M) /\ TY[v.id] = (IF T = "M" THEN "mapI" ELSE "mapS")))
    [] T \in {"PI", "PS"} ->
         v.k = "pt" /\ (v.obj = 0 \/ (v.obj \in 1..Len(M) /\ TypeAt(TY[v.obj], v.path) = (IF T = "PI" THEN "int" ELSE "S")))
    [] T = "F" ->
         \/ v.k = "nil"
         \/ v.k = "fn" /\ (IF v.code = "ref" THEN v.cell = 0 ELSE v.cell \in (NVars + 1)..Len(M) /\ TY[v.cell] = v.code)
         \/ v.k = "mv" /\ ValOK(v.recv, "S", M, TY) /\ ValOK(v.ptr, "PS", M, TY) /\ (v.code = "pinc" => v.ptr.obj # 0)
    [] T = "E" -> v.k = "nil" \/ (v.k = "if" /\ v.t \in {"A", "S", "L"} /\ ValOK(v.v, v.t, M, TY))
    [] T = "arrI" -> \A n \in 1..Len(v) : v[n] \in Int
    [] T = "arrL" -> \A n \in 1..Len(v) : ValOK(v[n], "L", M, TY)
    [] T = "mapI" -> Len(v) = 2 /\ \A n \in 1..2 : v[n].p \in BOOLEAN /\ v[n].v \in Int
    [] T = "mapS" -> Len(v) = 2 /\ \A n \in 1..2 : v[n].p \in BOOLEAN /\ ValOK(v[n].v, "S", M, TY)
    [] OTHER -> FALSE

TypeOK == /\ Len(mem) = Len(mty) /\ Len(mem) >= NVars
          /\ \A o \in 1..Len(mem) : ValOK(mem[o], mty[o], mem, mty)
          /\ Len(hist) = Len(obs) /\ Len(hist) <= MaxSteps

\* every slice value stored anywhere
RECURSIVE SlicesOf(_, _)
SlicesOf(v, T) ==
  CASE T \in {"L", "LL"} -> {v}
    [] T = "S"  -> {v[3]}
    [] T = "AS" -> {v[1][3], v[2][3]}
    [] T = "arrL" -> {v[n] : n \in 1..Len(v)}
    [] T = "mapS" -> {v[n].v[3] : n \in 1..2}
    [] T = "F" -> IF v.k = "mv" THEN {v.recv[3]} ELSE {}
    [] T = "E" -> IF v.k = "if" THEN SlicesOf(v.v, v.t) ELSE {}
    [] OTHER -> {}
\* heap well-formedness: a slice is a window inside its array
WellFormed ==
    \A o \in 1..Len(mem) : \A sl \in SlicesOf(mem[o], mty[o]) :
        sl.obj # 0 => /\ 0 <= sl.off /\ 0 <= sl.len /\ sl.len <= sl.cap /\ sl.cap <= MaxCap
                      /\ sl.off + sl.cap <= Len(ReadLoc(mem, sl.obj, sl.path))

FP(T) == IF T = "int" THEN <<>> ELSE FirstInt(T)
\* after an array or struct has been assigned / returned / dereferenced into a place,
\* destination and source are independent storage: the destination holds what the
\* source held, and a later write into either is not seen through the other
CopyIndependence ==
    /\ chk.c = "copy" =>
         LET D == Rd(mem, chk.d)  S == Rd(mem, chk.s) IN
         /\ D.ok /\ D.val = chk.val
         /\ (S.ok /\ S.addr /\ ~SameLoc(D, S)) =>
               /\ Rd(WriteLoc(mem, D.obj, D.path \o FP(chk.T), 99), chk.s).val = S.val
               /\ Rd(WriteLoc(mem, S.obj, S.path \o FP(chk.T), 99), chk.d).val = D.val
    \* an argument passed by value: what the callee did to its parameter itself is invisible
    \* (checked when the reference components of the argument do not point into its own storage)
    /\ chk.c = "pass" =>
         LET S == Rd(mem, chk.s)  x == chk.val IN
         /\ S.ok
         /\ chk.T = "A" => S.val = x
         /\ (chk.T = "S" /\ (S.addr => (x[3].obj # S.obj /\ x[5].obj # S.obj))) => S.val = x
         /\ (chk.T = "AS" /\ (S.addr => x[2][3].obj # S.obj)) => S.val = x
    \* the hidden copy made by boxing into an interface, binding a value receiver or
    \* initialising a closure's private variable: equal to the source then, untouched by it later
    /\ chk.c = "hid" =>
         LET S == Rd(mem, chk.s)
             Stored(M) == IF mty[chk.o] = "E" THEN M[chk.o].v ELSE IF mty[chk.o] = "F" THEN M[chk.o].recv ELSE M[chk.o]
         IN /\ Stored(mem) = chk.val
            /\ (chk.T \in {"A", "S"} /\ S.ok /\ S.addr) =>
                  Stored(WriteLoc(mem, S.obj, S.path \o FP(chk.T), 99)) = chk.val
    \* range over an array iterates over a copy taken before the loop; over a pointer to it, over the array
    /\ chk.c = "range" =>
         LET x == chk.val  now == Rd(mem, chk.s).val
             I(y, n) == IF chk.T = "A" THEN y[n] ELSE y[n][1]
         IN IF chk.ptr = 0 THEN chk.seen = <<I(x, 1), I(x, 2)>> ELSE chk.seen = <<I(x, 1), I(now, 2)>>

\* a slice, map, pointer or func value that was assigned has the same referent as its source
ShareIdentity ==
    chk.c = "share" =>
       LET D == Rd(mem, chk.d)  S == Rd(mem, chk.s) IN
       /\ D.ok /\ D.val = chk.val
       /\ S.ok => /\ S.val = D.val
                  /\ (chk.T = "L" /\ D.val.len > 0) =>
                        LET M2 == WriteLoc(mem, D.val.obj, ElemPath(D.val, 1), 99) IN Elem(M2, Rd(M2, chk.s).val, 1) = 99
                  /\ (chk.T = "PI" /\ D.val.obj # 0) =>
                        LET M2 == WriteLoc(mem, D.val.obj, D.val.path, 99) IN ReadLoc(M2, Rd(M2, chk.s).val.obj, Rd(M2, chk.s).val.path) = 99
                  /\ (chk.T = "M" /\ D.val.id # 0) =>
                        LET M2 == SetEntry(mem, D.val.id, 1, EntS(TRUE, 99)) IN M2[Rd(M2, chk.s).val.id][1].v = 99

\* behaviours are handed to the harness from an always-true invariant.  Exhaustive cfgs
\* (EmitAt = 0) emit every state: with VIEW = <<mem, last, depth>> TLC visits every distinct
\* (store, incoming operation, depth) once, so each is emitted with one history reaching it;
\* the harness replays the histories of maximal length (they contain their prefixes).  Simulation cfgs emit the complete history (EmitAt = MaxSteps).
Emit == (hist # <<>> /\ (EmitAt = 0 \/ Len(hist) = EmitAt)) =>
            PrintT(<<"BEH", ToJson([init |-> InitKind, mem0 |-> (IF InitKind = "rich" THEN RichMem ELSE ZeroMem), ops |-> hist, obs |-> obs])>>)
===============================================================================
