SPECIFICATION Spec
INVARIANTS Monotone Emit
