--------------------------------- MODULE Late ---------------------------------
(* C11 - a method declared by a LATER evaluation belongs to its type from then  *)
(* on, for every value of the type, whatever was asked about the type before.   *)
(*                                                                             *)
(* A session of four chunks:                                                   *)
(*   1  type T with the method early (value or pointer receiver), the struct E  *)
(*      embedding T, the interfaces IE {early() int} and IL {late() int}        *)
(*   2  var x interface{} = <holder: a T value, a *T, an E value>, and a PROBE  *)
(*      of x against IE (a two-result assertion, a type switch, or none), in a  *)
(*      statement or in the initialiser of a package variable                  *)
(*   3  the method late of T (value or pointer receiver)                        *)
(*   4  the same questions about IL                                            *)
(* Evaluated whole, all methods are declared before anything runs.  What a      *)
(* question about a dynamic type answers is the method set of that type (Go     *)
(* specification, "Method sets"): the methods with a value receiver for a T     *)
(* value and for a struct value embedding T, those with either receiver for *T. *)
(* The answers are therefore the same in the session and in the whole program   *)
(* (CutIndependence of Session.tla, here for declarations that extend a type).  *)
EXTENDS Sequences, TLC, Json

Recvs  == {"val", "ptr"}
Holds  == {"val", "ptr", "emb"}
Probes == {"assert", "switch", "none"}
Wheres == {"stmt", "varinit"}

InSet(hold, recv) == recv = "val" \/ hold = "ptr"

Cases == [early : Recvs, late : Recvs, hold : Holds, probe : Probes, where : Wheres]

VARIABLE c
Init == c \in Cases
Next == UNCHANGED c
Spec == Init /\ [][Next]_c

\* what the session must print: the probe of IE (if any) and the final questions about IL (assertion, then switch)
Expected(k) ==
    (IF k.probe = "none" THEN <<>> ELSE << <<"e", InSet(k.hold, k.early)>> >>)
    \o << <<"l", InSet(k.hold, k.late)>>, <<"s", InSet(k.hold, k.late)>> >>
\* declaring the late method changes no answer about the early one, and a pointer holds at least what a value holds
Monotone == InSet("val", c.late) => InSet("ptr", c.late)
Emit == PrintT(<<"BEH", ToJson([case |-> c, expected |-> Expected(c)])>>)
===============================================================================
