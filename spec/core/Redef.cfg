SPECIFICATION Spec
CONSTANTS MaxLen = 5
INVARIANTS CallerSeesCurrentOrOlder Emit
PROPERTIES OnlyThatSymbol
