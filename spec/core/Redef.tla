--------------------------------- MODULE Redef ---------------------------------
(* C11, last sentence: "Symbols defined by earlier calls keep their values and    *)
(* identity across calls, and redefining a function replaces only that function." *)
(*                                                                               *)
(* A session is a history of Eval calls over two functions f and g, a caller c    *)
(* of f, and a variable x:                                                        *)
(*   DefF(v) / DefG(v)   define or redefine the function to return v              *)
(*   DefC                define  func c() int { return f() + 10 }                 *)
(*   SetX(v)             x = v  (x is declared by the first SetX)                 *)
(*   UseF UseG UseC UseX evaluate f(), g(), c(), x                                *)
(* State: the current version of each symbol.  A redefinition of f changes f      *)
(* only: g, x keep their values.  What a caller compiled BEFORE the redefinition  *)
(* sees is left open by the property (old or new callee), so UseC allows both     *)
(* when c is older than f's latest definition.                                    *)
EXTENDS Naturals, Sequences, FiniteSets, TLC, Json

CONSTANTS MaxLen
Vals == {1, 2}

VARIABLES f, g, c, x, hist
\* f, g: current value or 0 when undefined; c: 0 undefined, else the set of f-values it may see;
\* x: current value or 0 when undeclared
vars == <<f, g, c, x, hist>>

Init == f = 0 /\ g = 0 /\ c = {} /\ x = 0 /\ hist = <<>>

Step(op, v, allowed) == hist' = Append(hist, [op |-> op, v |-> v, allowed |-> allowed])

DefF(v) == /\ Len(hist) < MaxLen
           /\ f' = v
           \* a caller compiled earlier may keep the old callee or see the new one
           /\ c' = IF c = {} THEN {} ELSE c \cup {v}
           /\ Step("DefF", v, {}) /\ UNCHANGED <<g, x>>
DefG(v) == Len(hist) < MaxLen /\ g' = v /\ Step("DefG", v, {}) /\ UNCHANGED <<f, c, x>>
DefC    == Len(hist) < MaxLen /\ f # 0 /\ c' = {f} /\ Step("DefC", 0, {}) /\ UNCHANGED <<f, g, x>>
SetX(v) == Len(hist) < MaxLen /\ x' = v /\ Step("SetX", v, {}) /\ UNCHANGED <<f, g, c>>
UseF    == Len(hist) < MaxLen /\ f # 0 /\ Step("UseF", 0, {f}) /\ UNCHANGED <<f, g, c, x>>
UseG    == Len(hist) < MaxLen /\ g # 0 /\ Step("UseG", 0, {g}) /\ UNCHANGED <<f, g, c, x>>
UseC    == Len(hist) < MaxLen /\ c # {} /\ Step("UseC", 0, {v + 10 : v \in c}) /\ UNCHANGED <<f, g, c, x>>
UseX    == Len(hist) < MaxLen /\ x # 0 /\ Step("UseX", 0, {x}) /\ UNCHANGED <<f, g, c, x>>

Next == (\E v \in Vals : DefF(v) \/ DefG(v) \/ SetX(v)) \/ DefC \/ UseF \/ UseG \/ UseC \/ UseX
Spec == Init /\ [][Next]_vars

\* the property on the model: a step changes only the symbol it names
OnlyThatSymbol ==
    [][ /\ (\E v \in Vals : DefF(v)) => UNCHANGED <<g, x>>
        /\ (\E v \in Vals : DefG(v)) => UNCHANGED <<f, c, x>>
        /\ (\E v \in Vals : SetX(v)) => UNCHANGED <<f, g, c>> ]_vars
\* the latest definition is always among what a caller may see
CallerSeesCurrentOrOlder == c = {} \/ f \in c

Emit == Len(hist) = MaxLen => PrintT(<<"BEH", ToJson([hist |-> hist])>>)
===============================================================================
