SPECIFICATION SpecSess
CONSTANTS Profile = "session" Pinned = FALSE FamN = 1 FamFaults = {}
INVARIANTS StatusOK CutIndependence SameEnd
