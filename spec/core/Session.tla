-------------------------------- MODULE Session --------------------------------
(* C11 - evaluating a program piecewise equals evaluating it whole.              *)
(*                                                                               *)
(* An abstract program (GoCore) is a list of ITEMS: its declarations in          *)
(* dependency order, then the statements of main.  A CUT is a set of positions   *)
(* between items; the chunks it defines are fed to one interpreter one after     *)
(* the other.  The session state is the persistent state of GoCore's evaluator:  *)
(* declarations define, statements execute in order at the global scope.         *)
(* The module generates (program, cut, entry point) and predicts, for every      *)
(* chunk, the output accumulated so far, and the final globals; TLC checks that   *)
(* the session semantics agrees with the whole-program semantics whatever the    *)
(* cut (CutIndependence), which is the property stated on the model.             *)
EXTENDS GoGen

NDecl == 7          \* items before main: import | type T | variables | helpers | g | two | f

VARIABLES cut, entry, sess
svars == <<prog, res, cut, entry, sess>>

\* "files-*": the declarations are distributed over several files of one package directory
\* (the cut decides which consecutive items share a file; the files are named so that LATER
\* items sort EARLIER), evaluated with EvalPath on the directory. The meaning of a package does
\* not depend on how its declarations are spread over files: same prediction as "whole-*".
\* "path-then-eval" / "path-then-compile": the declarations are a file evaluated with EvalPath, the
\* statements of main follow as chunks through Eval (Compile + Execute): entry points may be mixed.
Entries == {"eval", "compile-execute", "whole-eval", "whole-compile-ast", "whole-evalpath-mapfs", "whole-evalpath-disk",
            "files-evalpath-mapfs", "files-evalpath-disk", "path-then-eval", "path-then-compile"}

NItems(p) == NDecl + Len(p.main)

RandCut(p) ==
    LET n == NItems(p) IN
    IF n <= 1 THEN {} ELSE
    CASE RandomElement(1..4) = 1 -> 1..(n - 1)                       \* every item its own chunk
      [] OTHER -> RandomSubset(RandomElement(0..(n - 1)), 1..(n - 1))

InitSess == /\ prog = Empty /\ res = Run(Empty) /\ cut = {} /\ entry = "eval" /\ sess = SessionRun(Empty)
NextSess == /\ prog' = GenProg(prog)
            /\ res' = Run(prog')
            /\ sess' = SessionRun(prog')
            /\ cut' = RandCut(prog')
            /\ entry' = RandomElement(Entries)
SpecSess == InitSess /\ [][NextSess]_svars

\* pinned witness of the known finding F-C11-1 (shadowing in a nested block of a later chunk)
SessWitness ==
    WProg("shadowing-in-a-nested-block-of-a-later-chunk", <<>>,
          << [k |-> "def", x |-> "x", e |-> Lit(4)],
             For2(<< [k |-> "def", x |-> "x", e |-> Lit(1)] >>),
             [k |-> "asg", x |-> "g1", e |-> Var("x")],
             [k |-> "printg"] >>)
\* pinned witness of the known finding F-C11-5: a chunk of statements of main that assigns a package variable
\* and then declares a local of the same name (g0 = g0 + 4; g0 := g0 + 1): at the root level of a session the
\* declaration replaces the symbol for the WHOLE chunk (the statements of main are one chunk here)
SessWitness2 == CHOOSE w \in Witnesses : w.name = "main-local-named-like-a-package-variable"
InitSessWit == \/ /\ prog = SessWitness /\ res = Run(SessWitness) /\ sess = SessionRun(SessWitness)
                  /\ cut = 1..(NItems(SessWitness) - 1) /\ entry = "eval"
               \/ /\ prog = SessWitness2 /\ res = Run(SessWitness2) /\ sess = SessionRun(SessWitness2)
                  /\ cut = 1..NDecl /\ entry = "eval"
SpecSessWit == InitSessWit /\ [][UNCHANGED svars]_svars

(* Directed family: function literals created in a loop at the top level of main (so,  *)
(* in a session, at the GLOBAL scope) that capture the loop variable, a variable       *)
(* defined in the loop body, or a global, and are called after the loop.  Whole and     *)
(* piecewise evaluation must agree on each of them (every item its own chunk, and the   *)
(* statements of main in one chunk).                                                    *)
LoopKinds == {"for", "rng"}
Captures  == {"loopvar", "bodyvar", "global", "bodyvar-updated"}
ClosureLoop(lk, cap) ==
    LET cbody == CASE cap = "loopvar" -> << [k |-> "ret", bare |-> FALSE, e |-> Var("i")] >>
                   [] cap = "global"  -> << [k |-> "ret", bare |-> FALSE, e |-> Bin("add", Var("g0"), Var("i"))] >>
                   [] OTHER           -> << [k |-> "ret", bare |-> FALSE, e |-> Var("y")] >>
        pre   == IF cap \in {"bodyvar", "bodyvar-updated"}
                 THEN << [k |-> "def", x |-> "y", e |-> Bin("mul", Var("i"), Lit(11))] >> ELSE <<>>
        post  == IF cap = "bodyvar-updated" THEN << [k |-> "inc", x |-> "y", d |-> 1] >>
                 ELSE IF cap = "global" THEN << [k |-> "inc", x |-> "g0", d |-> 1] >> ELSE <<>>
        body  == pre \o << [k |-> "appclo", body |-> cbody] >> \o post
    IN WProg("", <<>>,
             << [k |-> "mkfs"],
                [k |-> lk, v |-> "i", n |-> 3, lab |-> "", body |-> body],
                [k |-> "callall"], [k |-> "printg"] >>)
\* a boolean DEFINED at the top level of main (in a session: a package-level symbol) from a comparison with nil,
\* nil on either side, of a map made / nil: the type of the symbol is that of the comparison, not of an operand
NilDef(mf, op, form) ==
    WProg("", <<>>,
          << [k |-> "mkmap", s |-> "m1", form |-> mf, ks |-> <<>>, es |-> <<>>],
             [k |-> "bdef", s |-> "b1", c |-> [k |-> "isnil", s |-> "m1", sort |-> "map", op |-> op, form |-> form]],
             [k |-> "if", c |-> [k |-> "bvar", s |-> "b1"], th |-> <<PrintS(Lit(1))>>, el |-> <<PrintS(Lit(2))>>],
             [k |-> "printg"] >>)
SessFamily == {ClosureLoop(lk, cap) : lk \in LoopKinds, cap \in Captures}
              \cup {NilDef(mf, op, form) : mf \in {"make", "nil"}, op \in {"eq", "ne"}, form \in {"xn", "nx"}}
InitSessFam == /\ prog \in SessFamily /\ res = Run(prog) /\ sess = SessionRun(prog)
               /\ cut \in {1..(NItems(prog) - 1), 1..NDecl}
               /\ entry \in {"eval", "compile-execute"}
SpecSessFam == InitSessFam /\ [][UNCHANGED svars]_svars

\* all cuts of one program (exhaustive tier over a fixed corpus is driven by the harness:
\* it asks for every subset when the program is small)

(* The property on the model: executing the statements of main one after the other *)
(* on the persistent session state gives the output and the globals of the whole    *)
(* program, and the output only grows from chunk to chunk.                          *)
CutIndependence ==
    (res.status = "ok" /\ sess.status = "ok") =>
        /\ sess.out = res.out
        /\ sess.globals = res.globals
        /\ Len(sess.marks) = Len(prog.main)
        /\ \A i \in 1..(Len(sess.marks) - 1) : sess.marks[i] <= sess.marks[i + 1]
SameEnd == (res.status = "ok") <=> (sess.status = "ok")

EmitSess == (res.status = "ok" /\ sess.status = "ok") =>
    PrintT(<<"BEH", ToJson([prog |-> prog, out |-> res.out, status |-> res.status, pval |-> res.pval,
                            globals |-> res.globals, steps |-> res.steps,
                            marks |-> sess.marks, cut |-> cut, entry |-> entry])>>)
===============================================================================
