SPECIFICATION SpecHeaders
CONSTANTS GOOS = "linux" GOARCH = "amd64" Release = 23
INVARIANTS PlusEquivalent DeMorgan NoUnderscore Emit
