SPECIFICATION SpecNames
CONSTANTS GOOS = "linux" GOARCH = "amd64" Release = 23
INVARIANTS NameLocality NoUnderscore TestOnlyInTest Emit
