SPECIFICATION SpecSim
CONSTANTS GOOS = "linux" GOARCH = "amd64" Release = 23
INVARIANTS PlusEquivalent DeMorgan NameLocality NoUnderscore TestOnlyInTest Emit
