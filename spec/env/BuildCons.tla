------------------------------ MODULE BuildCons ------------------------------
(* C17 - which files of a source package take part in a build.                 *)
(*                                                                             *)
(* The module states what the Go toolchain selects (go/build: goodOSArchFile,  *)
(* shouldBuild, matchTag) for a file, given the file's NAME and the constraint *)
(* HEADER at its top, for a target (GOOS, GOARCH, release) and a tag set.      *)
(* It is used as a generator + oracle: every state carries one case and the    *)
(* verdict the specification assigns to it; the harness renders the case as a  *)
(* real file in a real package, loads the package with the interpreter and     *)
(* looks whether the file's symbol is visible.                                 *)
EXTENDS Naturals, Sequences, FiniteSets, TLC, Json, Randomization

CONSTANTS GOOS, GOARCH,   \* target of the interpreter, e.g. "linux", "amd64"
          Release         \* N of the newest go1.N release tag of the interpreter's context

\* go/build/syslist.go (go1.23)
KnownOS   == {"aix","android","darwin","dragonfly","freebsd","hurd","illumos","ios","js",
              "linux","nacl","netbsd","openbsd","plan9","solaris","wasip1","windows","zos"}
UnixOS    == {"aix","android","darwin","dragonfly","freebsd","hurd","illumos","ios",
              "linux","netbsd","openbsd","solaris"}
KnownArch == {"386","amd64","amd64p32","arm","armbe","arm64","arm64be","loong64","mips",
              "mipsle","mips64","mips64le","mips64p32","mips64p32le","ppc","ppc64","ppc64le",
              "riscv","riscv64","s390","s390x","sparc","sparc64","wasm"}

-------------------------------------------------------------------------------
(* Tags.  An atom is a word or a release tag go1.n.  cgo and the compiler tag   *)
(* (gc) are deliberately not generated: what they should mean for an           *)
(* interpreter is not settled by the property (DESIGN C17).                    *)
WordAtom(w) == [k |-> "word", w |-> w, n |-> 0]
GoAtom(n)   == [k |-> "go",   w |-> "",  n |-> n]

MatchWord(w, tags) ==
    \/ w = GOOS \/ w = GOARCH
    \/ (GOOS = "android" /\ w = "linux")
    \/ (GOOS = "illumos" /\ w = "solaris")
    \/ (GOOS = "ios" /\ w = "darwin")
    \/ (w = "unix" /\ GOOS \in UnixOS)
    \/ w \in tags

Match(a, tags) == IF a.k = "go" THEN a.n >= 1 /\ a.n <= Release ELSE MatchWord(a.w, tags)

-------------------------------------------------------------------------------
(* File-name rule.  A name is  <pre>[_e1[_e2[_e3]]][_test][.x].go              *)
(* els is the sequence of elements after the first underscore.                 *)
StripTest(l) == IF Len(l) > 0 /\ l[Len(l)] = "test" THEN SubSeq(l, 1, Len(l) - 1) ELSE l

\* the list go/build looks at: everything from the first "_" on, split on "_"
NameList(els, test) == StripTest(<<"">> \o els \o (IF test THEN <<"test">> ELSE <<>>))

NameRule(l, tags) ==
    LET n == Len(l) IN
    IF n >= 2 /\ l[n-1] \in KnownOS /\ l[n] \in KnownArch
      THEN MatchWord(l[n], tags) /\ MatchWord(l[n-1], tags)
    ELSE IF n >= 1 /\ l[n] \in (KnownOS \cup KnownArch)
      THEN MatchWord(l[n], tags)
    ELSE TRUE

NameOK(els, test, tags) ==
    IF els = <<>> /\ ~test THEN TRUE      \* no underscore in the name at all
    ELSE NameRule(NameList(els, test), tags)

-------------------------------------------------------------------------------
(* Constraint expressions (//go:build) and +build lines.                       *)
Atom(a)    == [op |-> "atom", a |-> a]
Not(x)     == [op |-> "not", x |-> x]
And(l, r)  == [op |-> "and", l |-> l, r |-> r]
Or(l, r)   == [op |-> "or",  l |-> l, r |-> r]

RECURSIVE EvalExpr(_, _)
EvalExpr(e, tags) ==
    CASE e.op = "atom" -> Match(e.a, tags)
      [] e.op = "not"  -> ~EvalExpr(e.x, tags)
      [] e.op = "and"  -> EvalExpr(e.l, tags) /\ EvalExpr(e.r, tags)
      [] e.op = "or"   -> EvalExpr(e.l, tags) \/ EvalExpr(e.r, tags)

\* +build: a sequence of lines (AND), each a sequence of options (OR), each a
\* sequence of terms (AND), each a possibly negated atom.
Term(a, neg) == [a |-> a, neg |-> neg]
EvalTerm(t, tags) == IF t.neg THEN ~Match(t.a, tags) ELSE Match(t.a, tags)
EvalPlus(p, tags) ==
    \A i \in 1..Len(p) : \E j \in 1..Len(p[i]) : \A k \in 1..Len(p[i][j]) : EvalTerm(p[i][j][k], tags)

\* the same +build header written as an expression (what gofmt would write)
TermExpr(t) == IF t.neg THEN Not(Atom(t.a)) ELSE Atom(t.a)
RECURSIVE FoldAnd(_), FoldOr(_)
FoldAnd(s) == IF Len(s) = 1 THEN s[1] ELSE And(s[1], FoldAnd(Tail(s)))
FoldOr(s)  == IF Len(s) = 1 THEN s[1] ELSE Or(s[1], FoldOr(Tail(s)))
PlusToExpr(p) ==
    FoldAnd([i \in 1..Len(p) |->
       FoldOr([j \in 1..Len(p[i]) |->
          FoldAnd([k \in 1..Len(p[i][j]) |-> TermExpr(p[i][j][k])])])])

(* A header.  kind: "none" | "go" (//go:build e) | "plus" (+build lines p) |   *)
(* "both" (//go:build e followed by +build lines p: the //go:build line wins). *)
(* attached = TRUE puts the +build lines in the comment block adjacent to the  *)
(* package clause (no blank line): the toolchain then ignores them.            *)
HeaderOK(h, tags) ==
    CASE h.kind = "none" -> TRUE
      [] h.kind = "go"   -> EvalExpr(h.e, tags)
      [] h.kind = "both" -> EvalExpr(h.e, tags)
      [] h.kind = "plus" -> IF h.attached THEN TRUE ELSE EvalPlus(h.p, tags)

-------------------------------------------------------------------------------
(* A case and its verdict.                                                     *)
(* load: "import" (package imported by a main program; _test files never take  *)
(* part) or "test" (package loaded with its _test files).                      *)
(* optTags: Options.BuildTags; yTags: tags set by a yaegi:tags comment in the  *)
(* importing main file.                                                        *)
(* car: another file of the package, presented BEFORE the file of the case,    *)
(* that carries a comment  // yaegi:tags foo : "none"; "incl" it takes part    *)
(* (its tag counts from then on); "hdr" its constraint header excludes it,     *)
(* "name" its file name excludes it: a file that does not take part adds       *)
(* nothing to the tag set.                                                      *)
Cars == {"none", "incl", "hdr", "name"}
Tags(c) == c.optTags \cup c.yTags \cup (IF c.car = "incl" THEN {"foo"} ELSE {})

\* the toolchain's notion of a test file: the file name ends in _test.go
IsTestFile(c) == ~c.dot /\ (c.test \/ (c.els # <<>> /\ c.els[Len(c.els)] = "test"))

Selected(c) ==
    /\ (IsTestFile(c) => c.load = "test")
    /\ NameOK(c.els, c.test, Tags(c))
    /\ HeaderOK(c.h, Tags(c))

-------------------------------------------------------------------------------
(* Generation domains.                                                          *)
OtherOS   == IF GOOS = "windows" THEN "linux" ELSE "windows"
OtherArch == IF GOARCH = "arm64" THEN "amd64" ELSE "arm64"
\* words for the name positions: target OS, another OS, an OS of the go/build list
\* that older lists lack, target arch, another arch, a newer arch, a plain word,
\* "test", and "unix" (a tag, but not a known OS: no effect in names).
NameWords == {GOOS, OtherOS, "zos", GOARCH, OtherArch, "riscv64", "foo", "test", "unix"}
Pres      == {"c", OtherOS, OtherArch}
NoHeader  == [kind |-> "none", e |-> Atom(WordAtom("x")), p |-> <<>>, attached |-> FALSE]

HdrAtoms == {WordAtom(GOOS), WordAtom(OtherOS), WordAtom(GOARCH), WordAtom(OtherArch),
             WordAtom("unix"), WordAtom("foo"), WordAtom("bar"), WordAtom("zos"),
             GoAtom(1), GoAtom(Release), GoAtom(Release + 1)}
E0 == {Atom(a) : a \in HdrAtoms}
E1 == E0 \cup {Not(x) : x \in E0} \cup {And(l, r) : l, r \in E0} \cup {Or(l, r) : l, r \in E0}
\* tag sets given through Options.BuildTags / yaegi:tags: plain words, and words that are also the
\* name of an operating system or architecture other than the target's (go/build: a word of the tag
\* set is satisfied whatever the word is: -tags windows selects x_windows.go on linux)
TagSets == SUBSET {"foo", "bar"} \cup {{OtherOS}, {OtherArch}, {"foo", OtherOS}, {OtherOS, OtherArch}}
NameTagSets == {{}, {OtherOS}, {OtherArch}, {OtherOS, OtherArch}}
Terms  == {Term(a, neg) : a \in HdrAtoms, neg \in BOOLEAN}
SeqsUpTo2(S) == {<<x>> : x \in S} \cup {<<x, y>> : x, y \in S}

ElsUpTo(n) == UNION {[1..k -> NameWords] : k \in 0..n}

VARIABLES case, verdict
vars == <<case, verdict>>

MkCaseC(pre, els, test, dot, h, load, ot, yt, car) ==
    [pre |-> pre, els |-> els, test |-> test, dot |-> dot, h |-> h, load |-> load,
     optTags |-> ot, yTags |-> yt, car |-> car]
MkCase(pre, els, test, dot, h, load, ot, yt) == MkCaseC(pre, els, test, dot, h, load, ot, yt, "none")

\* (a) every name, no header
InitNames ==
    /\ case \in {MkCase(pre, els, test, dot, NoHeader, load, {}, {}) :
                   pre \in Pres, els \in ElsUpTo(3), test \in BOOLEAN, dot \in BOOLEAN,
                   load \in {"import", "test"}}
             \cup
             \* names of up to two elements under tag sets that hold OS / architecture words
             {MkCase(pre, els, test, FALSE, NoHeader, "import", ot, {}) :
                   pre \in Pres, els \in ElsUpTo(2), test \in BOOLEAN, ot \in NameTagSets \ {{}}}
    /\ verdict = "?"

\* (b) every header with an expression of depth <= 1, in the //go:build syntax,
\* and every +build header with <= 2 lines of one option of <= 2 terms or one line
\* of 2 options, plain name, every tag set given through Options or yaegi:tags
PlusShapes ==
       {<< <<o>> >> : o \in SeqsUpTo2(Terms)}
  \cup {<< <<o1, o2>> >> : o1, o2 \in {<<t>> : t \in Terms}}
  \cup {<< <<o1>>, <<o2>> >> : o1, o2 \in {<<t>> : t \in Terms}}
InitHeaders ==
    /\ case \in
         {MkCase("c", <<>>, FALSE, FALSE, [kind |-> "go", e |-> e, p |-> <<>>, attached |-> FALSE],
                 "import", ot, yt) : e \in E1, ot \in TagSets, yt \in {{}, {"foo"}}}
         \cup
         \* the tag comes (or does not come) from a carrier file of the same package
         {MkCaseC("c", <<>>, FALSE, FALSE, [kind |-> "go", e |-> e, p |-> <<>>, attached |-> FALSE],
                 "import", ot, {}, car) : e \in E1, ot \in {{}, {"bar"}}, car \in Cars \ {"none"}}
         \cup
         {MkCaseC("c", <<>>, FALSE, FALSE, [kind |-> "plus", e |-> Atom(WordAtom("x")), p |-> p, attached |-> FALSE],
                 "import", {}, {}, car) : p \in PlusShapes, car \in Cars \ {"none"}}
         \cup
         {MkCase("c", <<>>, FALSE, FALSE, [kind |-> "plus", e |-> Atom(WordAtom("x")), p |-> p, attached |-> att],
                 "import", ot, {}) : p \in PlusShapes, ot \in TagSets, att \in BOOLEAN}
    /\ verdict = "?"

Decide == verdict = "?" /\ verdict' = (IF Selected(case) THEN "yes" ELSE "no") /\ UNCHANGED case

\* (c) seeded simulation of the full cross product, expressions of depth <= 2,
\* +build headers of up to 2 lines x 2 options x 2 terms, "both" headers whose
\* two parts may disagree.
\* (every Rand* operator takes a dummy argument: TLC evaluates a constant-level
\* definition without parameters only once and would repeat the same "random" case)
RandExpr2(z) ==
    LET k == RandomElement({"leaf", "not", "and", "or"}) IN
    CASE k = "leaf" -> RandomElement(E1)
      [] k = "not"  -> Not(RandomElement(E1))
      [] k = "and"  -> And(RandomElement(E1), RandomElement(E1))
      [] k = "or"   -> Or(RandomElement(E1), RandomElement(E1))
RandOption(z) == RandomElement(SeqsUpTo2(Terms))
RandLine(z)   == IF RandomElement(BOOLEAN) THEN <<RandOption(z)>> ELSE <<RandOption(z), RandOption(z)>>
RandPlus(z)   == IF RandomElement(BOOLEAN) THEN <<RandLine(z)>> ELSE <<RandLine(z), RandLine(z)>>
RandHeader(z) ==
    LET k == RandomElement({"none", "go", "plus", "both"}) IN
    [kind |-> k, e |-> RandExpr2(z), p |-> RandPlus(z),
     attached |-> (k = "plus" /\ RandomElement(1..4) = 1)]
RandCase(z) ==
    LET load == RandomElement({"import", "import", "test"})
        yt   == IF load = "import" THEN RandomElement(TagSets) ELSE {}
    IN MkCaseC(RandomElement(Pres), RandomElement(ElsUpTo(3)), RandomElement(1..3) = 1,
               RandomElement(1..6) = 1, RandHeader(z), load, RandomElement(TagSets), yt,
               IF load = "import" THEN RandomElement(Cars \cup {"none", "none"}) ELSE "none")

InitSim == case = MkCase("c", <<>>, FALSE, FALSE, NoHeader, "import", {}, {}) /\ verdict = "yes"
NextSim == /\ case' = RandCase(case)
           /\ verdict' = (IF Selected(case') THEN "yes" ELSE "no")

SpecNames   == InitNames /\ [][Decide]_vars
SpecHeaders == InitHeaders /\ [][Decide]_vars
SpecSim     == InitSim /\ [][NextSim]_vars

-------------------------------------------------------------------------------
(* What TLC checks on the model itself.                                         *)
\* the +build rendering and the //go:build rendering of one header select identically
PlusEquivalent ==
    case.h.kind = "plus" => EvalPlus(case.h.p, Tags(case)) = EvalExpr(PlusToExpr(case.h.p), Tags(case))
\* the name rule never looks further left than the last two elements (after _test is dropped)
NameLocality ==
    LET l == NameList(case.els, case.test) n == Len(l) IN
    n > 2 => NameRule(l, Tags(case)) = NameRule(SubSeq(l, n - 1, n), Tags(case))
\* a name without underscore is never constrained; test files never take part in an import
NoUnderscore == (verdict # "?" /\ case.els = <<>> /\ ~case.test /\ case.h.kind = "none") => verdict = "yes"
TestOnlyInTest == (verdict # "?" /\ IsTestFile(case) /\ case.load = "import") => verdict = "no"
DeMorgan ==
    (case.h.kind \in {"go", "both"} /\ case.h.e.op = "and") =>
        EvalExpr(Not(case.h.e), Tags(case)) = EvalExpr(Or(Not(case.h.e.l), Not(case.h.e.r)), Tags(case))

\* behaviours are handed to the harness from an always-true invariant
Emit == verdict # "?" => PrintT(<<"BEH", ToJson([c |-> case, sel |-> verdict])>>)
===============================================================================
