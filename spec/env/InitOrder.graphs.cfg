\* Hand run (the harness generates its cfgs itself, see harness/cmd/c15/main.go):
\*   java -Xss512m -cp tla2tools.jar:CommunityModules-deps.jar tlc2.TLC -deadlock -config InitOrder.graphs.cfg InitOrder
\* Fams: names of the families of InitOrder.tla (operator Fam) to enumerate.
SPECIFICATION SpecFams
CONSTANTS Fams = {"all-3v0f", "all-2v1f", "self-2v1f", "dag-4v0f"}
INVARIANTS RespectsDeps EarliestReady ExactlyOnce ImportsFirst RejectRunsNothing RepairAgrees Emit
