\* Regression model of the sweep before the repair: TLC must REFUTE OldSweepAgrees
\* (counterexamples: `a = c; b; c; d` and a dependency through a function body).
SPECIFICATION SpecFams
CONSTANTS Fams = {"dag-3v1f"}
INVARIANTS OldSweepAgrees
