\* Hand run: ... tlc2.TLC -simulate num=1 -depth 1500 -seed 1 -workers 1 -config InitOrder.sim.cfg InitOrder
SPECIFICATION SpecSim
CONSTANTS Fams = {}
INVARIANTS RespectsDeps EarliestReady ExactlyOnce ImportsFirst RejectRunsNothing Emit
