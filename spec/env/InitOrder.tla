------------------------------ MODULE InitOrder ------------------------------
(* C15 - package initialisation order.                                         *)
(*                                                                             *)
(* The module states the order in which a Go program is initialised (Go spec,  *)
(* "Package initialization" and "Program initialization"):                     *)
(*  - the files of a package are presented in file-name order; inside a file   *)
(*    declarations are in source order;                                        *)
(*  - repeatedly, the EARLIEST variable in declaration order that is not yet   *)
(*    initialised and has no uninitialised dependency is initialised;          *)
(*  - a variable depends on every variable its initialiser refers to, directly *)
(*    or through the bodies of the functions and methods it refers to          *)
(*    (transitively; a method value T{}.m is a reference to m);                *)
(*  - `var a, b = f()` initialises a and b in one step, `var a, b = x, y` are  *)
(*    two variables with one initialiser each;                                 *)
(*  - then the init functions run in the order they are presented;             *)
(*  - an imported package is completely initialised before its importer, once; *)
(*  - main.main runs after package main is initialised;                        *)
(*  - a program with an initialisation cycle is rejected, nothing runs.        *)
(*                                                                             *)
(* Generator + oracle: a state carries a program (prog) and the log of what    *)
(* has been initialised so far; one action per step of the initialisation.     *)
(* At the end the program and its log are emitted; the harness renders prog as *)
(* Go source in which every initialiser prints its identity, runs the real     *)
(* interpreter on it and compares the printed log with the model's.            *)
EXTENDS Integers, Sequences, FiniteSets, TLC, Json, Randomization

-------------------------------------------------------------------------------
(* Programs.                                                                    *)
(* prog: sequence of packages, prog[1] is package main.                         *)
(* package: [imp: set of package indices it imports (always higher indices, so *)
(*           the import graph is acyclic), d: sequence of declarations in      *)
(*           presentation order].                                              *)
(* declaration: [k: tag, r: references of the (first) body, r2: references of   *)
(*           the second initialiser of a "pr" declaration, f: file number,     *)
(*           sh: 0, or the index of a variable declaration whose name the body *)
(*           redeclares locally (a local that shadows; never a dependency)].   *)
(* tags: "v1" var a = e       "v2" var a, b = e2()     "pr" var a, b = e, e'   *)
(*       "vb" var _ = e       "fn" function            "mt" method of T         *)
(*       "in" init function                                                     *)
(* reference: [p: 0 for the own package, else the index of an imported one,    *)
(*             d: declaration index there, s: 1, or 2 for the second variable  *)
(*             of a two-name declaration]. Referring to a variable reads it,   *)
(*             to a function calls it, to a method calls the method value.     *)
VarTags == {"v1", "v2", "pr", "vb"}
FunTags == {"fn", "mt"}
RefTags == {"v1", "v2", "pr", "fn", "mt"}      \* what a body can refer to

Ref(p, d, s) == [p |-> p, d |-> d, s |-> s]

\* variables of a package, as slots <<declaration, position>>: a "pr"
\* declaration holds two variables, every other var declaration is one unit.
Slots(pk) == {sl \in (1..Len(pk.d)) \X {1, 2} :
                 /\ pk.d[sl[1]].k \in VarTags
                 /\ (sl[2] = 2 => pk.d[sl[1]].k = "pr")}
Before(a, b) == a[1] < b[1] \/ (a[1] = b[1] /\ a[2] < b[2])     \* declaration order
Body(pk, sl) == IF sl[2] = 2 THEN pk.d[sl[1]].r2 ELSE pk.d[sl[1]].r
InitDecls(pk) == {i \in 1..Len(pk.d) : pk.d[i].k = "in"}

-------------------------------------------------------------------------------
(* Dependencies.                                                                *)
Local(rs) == {x \in rs : x.p = 0}
\* variables a set of references mentions
VarsOf(pk, rs) == {IF pk.d[x.d].k = "pr" THEN <<x.d, x.s>> ELSE <<x.d, 1>> :
                      x \in {y \in Local(rs) : pk.d[y.d].k \in VarTags}}
\* functions and methods a set of references mentions
FunsOf(pk, rs) == {x.d : x \in {y \in Local(rs) : pk.d[y.d].k \in FunTags}}

RECURSIVE FunClosure(_, _)
FunClosure(pk, F) ==
    LET G == F \cup UNION {FunsOf(pk, pk.d[f].r) : f \in F}
    IN IF G = F THEN F ELSE FunClosure(pk, G)

\* the variables sl depends on: mentioned by its initialiser, or by the body of a
\* function/method reachable from it
Deps(pk, sl) ==
    LET rs == Body(pk, sl)
        F  == FunClosure(pk, FunsOf(pk, rs))
    IN VarsOf(pk, rs) \cup UNION {VarsOf(pk, pk.d[f].r) : f \in F}

RECURSIVE VarClosure(_, _)
VarClosure(pk, S) ==
    LET G == S \cup UNION {Deps(pk, x) : x \in S}
    IN IF G = S THEN S ELSE VarClosure(pk, G)

Cyclic(pk) == \E x \in Slots(pk) : x \in VarClosure(pk, Deps(pk, x))

Ready(pk, done, x) == x \notin done /\ Deps(pk, x) \subseteq done
\* the variable Go initialises next
NextSlot(pk, done) ==
    CHOOSE x \in Slots(pk) :
        /\ Ready(pk, done, x)
        /\ \A y \in Slots(pk) : Before(y, x) => ~Ready(pk, done, y)

-------------------------------------------------------------------------------
(* The initialisation as a state machine.                                       *)
(* log entries: [p, d, s]; s >= 1 a variable slot, s = 0 /\ d > 0 the init     *)
(* function declared at d, d = 0 main.main.                                     *)
\* rnd: the random numbers a simulated program was derived from (<<>> otherwise)
VARIABLES prog, phase, cur, pdone, log, rnd
vars == <<prog, phase, cur, pdone, log, rnd>>

Idx(p) == {i \in 1..Len(log) : log[i].p = p}
DoneSlots(p) == {<<log[i].d, log[i].s>> : i \in {j \in Idx(p) : log[j].s > 0}}
DoneInits(p) == {log[i].d : i \in {j \in Idx(p) : log[j].s = 0 /\ log[j].d > 0}}
MinOf(S) == CHOOSE x \in S : \A y \in S : x <= y

\* the type checker looks at the whole program first
Start ==
    /\ phase = "new"
    /\ phase' = IF \E p \in 1..Len(prog) : Cyclic(prog[p]) THEN "reject" ELSE "run"
    /\ UNCHANGED <<prog, cur, pdone, log, rnd>>

\* one package at a time; any package whose imports are complete may be next
EnterPkg(p) ==
    /\ phase = "run" /\ cur = 0
    /\ p \notin pdone
    /\ prog[p].imp \subseteq pdone
    /\ cur' = p
    /\ UNCHANGED <<prog, phase, pdone, log, rnd>>

InitVar ==
    /\ phase = "run" /\ cur # 0
    /\ Slots(prog[cur]) # DoneSlots(cur)
    /\ LET x == NextSlot(prog[cur], DoneSlots(cur))
       IN log' = Append(log, [p |-> cur, d |-> x[1], s |-> x[2]])
    /\ UNCHANGED <<prog, phase, cur, pdone, rnd>>

RunInit ==
    /\ phase = "run" /\ cur # 0
    /\ Slots(prog[cur]) = DoneSlots(cur)
    /\ InitDecls(prog[cur]) # DoneInits(cur)
    /\ log' = Append(log, [p |-> cur, d |-> MinOf(InitDecls(prog[cur]) \ DoneInits(cur)), s |-> 0])
    /\ UNCHANGED <<prog, phase, cur, pdone, rnd>>

LeavePkg ==
    /\ phase = "run" /\ cur # 0
    /\ Slots(prog[cur]) = DoneSlots(cur)
    /\ InitDecls(prog[cur]) = DoneInits(cur)
    /\ pdone' = pdone \cup {cur}
    /\ cur' = 0
    /\ IF cur = 1
         THEN log' = Append(log, [p |-> 1, d |-> 0, s |-> 0]) /\ phase' = "done"     \* main.main
         ELSE UNCHANGED <<log, phase>>
    /\ UNCHANGED <<prog, rnd>>

Step == Start \/ (\E p \in 1..Len(prog) : EnterPkg(p)) \/ InitVar \/ RunInit \/ LeavePkg

-------------------------------------------------------------------------------
(* What TLC checks on the model (statements of the property over the log).      *)
SlotsBefore(i) == {<<log[j].d, log[j].s>> : j \in {k \in 1..(i - 1) : log[k].p = log[i].p /\ log[k].s > 0}}

\* no variable is initialised before one it depends on
RespectsDeps ==
    \A i \in 1..Len(log) : log[i].s > 0 =>
        Deps(prog[log[i].p], <<log[i].d, log[i].s>>) \subseteq SlotsBefore(i)

\* when a variable was initialised, no variable declared earlier was ready
EarliestReady ==
    \A i \in 1..Len(log) : log[i].s > 0 =>
        LET pk == prog[log[i].p] IN
        ~ \E y \in Slots(pk) : /\ Before(y, <<log[i].d, log[i].s>>)
                               /\ Ready(pk, SlotsBefore(i), y)

AllOf(p) == {[p |-> p, d |-> sl[1], s |-> sl[2]] : sl \in Slots(prog[p])}
            \cup {[p |-> p, d |-> i, s |-> 0] : i \in InitDecls(prog[p])}
Complete(p, n) == AllOf(p) \subseteq {log[j] : j \in 1..n}

\* nothing runs twice; at the end everything has run; init functions in source
\* order, after the variables of their package; main.main last
ExactlyOnce ==
    /\ \A i, j \in 1..Len(log) : i # j => log[i] # log[j]
    /\ phase = "done" =>
          /\ \A p \in 1..Len(prog) : Complete(p, Len(log))
          /\ log[Len(log)] = [p |-> 1, d |-> 0, s |-> 0]
    /\ \A i, j \in 1..Len(log) :
          (i < j /\ log[i].p = log[j].p /\ log[i].s = 0) =>
              (log[j].s = 0 /\ (log[j].d = 0 \/ log[i].d < log[j].d))
    /\ \A i \in 1..Len(log) : log[i].p \in 1..Len(prog)

\* an imported package is complete before anything of its importer runs, and
\* packages are initialised one at a time
ImportsFirst ==
    /\ \A i \in 1..Len(log) : \A q \in prog[log[i].p].imp : Complete(q, i - 1)
    /\ \A i, j, k \in 1..Len(log) : (i < j /\ j < k /\ log[i].p = log[k].p) => log[j].p = log[i].p

RejectRunsNothing == phase = "reject" => log = <<>>

-------------------------------------------------------------------------------
(* The package orders the property allows (for the harness: the log of a        *)
(* behaviour fixes one of them; the interpreter may choose any).                *)
PkgOrderOK(o) == \A i \in 1..Len(o) : prog[o[i]].imp \subseteq {o[j] : j \in 1..(i - 1)}
PermsOf(n) == {f \in [1..n -> 1..n] : \A i, j \in 1..n : i # j => f[i] # f[j]}
AllOrders == {o \in PermsOf(Len(prog)) : PkgOrderOK(o)}

\* behaviours are handed to the harness from an always-true invariant
Emit == phase \in {"done", "reject"} =>
           PrintT(<<"BEH", ToJson([g |-> prog, v |-> phase, log |-> log, ord |-> AllOrders])>>)

-------------------------------------------------------------------------------
(* Mechanism level: the sweep the interpreter performed before it was repaired *)
(* (regression model) and the design of the repair.  Units are var             *)
(* declarations (a "pr" declaration is ONE unit at this level); D[u] is the    *)
(* set of units u waits for.                                                   *)
Units(pk) == {i \in 1..Len(pk.d) : pk.d[i].k \in VarTags}
UnitSeq(pk) == LET RECURSIVE build(_)
                   build(i) == IF i > Len(pk.d) THEN <<>>
                               ELSE IF pk.d[i].k \in VarTags THEN <<i>> \o build(i + 1) ELSE build(i + 1)
               IN build(1)
UnitBody(pk, u) == pk.d[u].r \cup pk.d[u].r2
\* dependencies as the unrepaired code collected them: identifiers of the
\* initialiser only
DirectUnitDeps(pk) == [u \in Units(pk) |-> {x.d : x \in {y \in Local(UnitBody(pk, u)) : pk.d[y.d].k \in VarTags}} \ {u}]
\* dependencies closed through function and method bodies
FullUnitDeps(pk) ==
    [u \in Units(pk) |->
        LET rs == UnitBody(pk, u)
            F  == FunClosure(pk, FunsOf(pk, rs))
        IN ({sl[1] : sl \in VarsOf(pk, rs)} \cup UNION {{sl[1] : sl \in VarsOf(pk, pk.d[f].r)} : f \in F}) \ {u}]

\* one pass of the old sweep: emit every unit whose dependencies are emitted
RECURSIVE Pass(_, _, _)
Pass(D, nodes, st) ==
    IF nodes = <<>> THEN st
    ELSE LET n == Head(nodes) IN
         IF D[n] \subseteq st.inited
           THEN Pass(D, Tail(nodes), [out |-> Append(st.out, n), rev |-> st.rev, inited |-> st.inited \cup {n}])
           ELSE Pass(D, Tail(nodes), [out |-> st.out, rev |-> Append(st.rev, n), inited |-> st.inited])
RECURSIVE SweepAll(_, _, _, _)
SweepAll(D, nodes, inited, out) ==
    LET r == Pass(D, nodes, [out |-> out, rev |-> <<>>, inited |-> inited])
    IN IF r.rev = <<>> \/ r.rev = nodes THEN r.out ELSE SweepAll(D, r.rev, r.inited, r.out)
OldSweep(pk) == SweepAll(DirectUnitDeps(pk), UnitSeq(pk), {}, <<>>)

\* the repair: restart at the first ready unit, dependencies closed through bodies
RemoveAt(s, i) == SubSeq(s, 1, i - 1) \o SubSeq(s, i + 1, Len(s))
RECURSIVE Restart(_, _, _, _)
Restart(D, nodes, inited, out) ==
    LET R == {i \in 1..Len(nodes) : D[nodes[i]] \subseteq inited}
    IN IF R = {} THEN out
       ELSE LET i == MinOf(R) IN Restart(D, RemoveAt(nodes, i), inited \cup {nodes[i]}, Append(out, nodes[i]))
NewSweep(pk) == Restart(FullUnitDeps(pk), UnitSeq(pk), {}, <<>>)

\* the order of unit initialisation in the log of package p
RECURSIVE UnitsOfLog(_, _)
UnitsOfLog(p, i) ==
    IF i > Len(log) THEN <<>>
    ELSE IF log[i].p = p /\ log[i].s = 1 THEN <<log[i].d>> \o UnitsOfLog(p, i + 1) ELSE UnitsOfLog(p, i + 1)
NoPairs(pk) == \A i \in 1..Len(pk.d) : pk.d[i].k # "pr"

\* holds: the repaired sweep computes the specified order (programs without "pr")
RepairAgrees ==
    phase = "done" => \A p \in 1..Len(prog) : NoPairs(prog[p]) => NewSweep(prog[p]) = UnitsOfLog(p, 1)
\* does NOT hold (checked to be violated in the regression cfg): the old sweep
OldSweepAgrees ==
    phase = "done" => \A p \in 1..Len(prog) : NoPairs(prog[p]) => OldSweep(prog[p]) = UnitsOfLog(p, 1)

-------------------------------------------------------------------------------
(* Exhaustive generation: families of programs, each a complete enumeration     *)
(* inside its bounds.                                                           *)
CONSTANT Fams        \* names of the families a run enumerates ({} in simulation)

Rep(t, n) == [i \in 1..n |-> t]
Targets(ks) == {t \in (1..Len(ks)) \X {1, 2} : ks[t[1]] \in RefTags /\ (t[2] = 2 => ks[t[1]] = "pr")}
Bodies(ks, m) == {{Ref(0, t[1], t[2]) : t \in T} : T \in {S \in SUBSET Targets(ks) : Cardinality(S) <= m}}
Mono(f, n) == \A i \in 1..(n - 1) : f[i] <= f[i + 1]
\* how the declarations spread over files
Layouts(n, mode) ==
    CASE mode = "one"   -> {Rep(1, n)}
      [] mode = "mid"   -> {Rep(1, n), [i \in 1..n |-> IF i <= n \div 2 THEN 1 ELSE 2]}
      [] mode = "two"   -> {f \in [1..n -> 1..2] : Mono(f, n)}
      [] mode = "three" -> {f \in [1..n -> 1..3] : Mono(f, n)}
PrIdx(ks) == {i \in 1..Len(ks) : ks[i] = "pr"}
InIdx(ks) == {i \in 1..Len(ks) : ks[i] = "in"}

MkPkg(ks, b, b2, fl) ==
    [imp |-> {},
     d |-> [i \in 1..Len(ks) |->
              [k |-> ks[i], r |-> b[i], r2 |-> IF i \in PrIdx(ks) THEN b2[i] ELSE {}, f |-> fl[i], sh |-> 0]]]

\* every graph, cyclic ones included; self: may the initialiser of a variable refer
\* to that very variable (the trivial cycle, kept to a family of its own)
PkgsOf(ks, m, mi, mode, self) ==
    {MkPkg(ks, b, b2, fl) :
        b  \in {x \in [1..Len(ks) -> Bodies(ks, m)] :
                  /\ \A i \in InIdx(ks) : Cardinality(x[i]) <= mi
                  /\ self \/ \A i \in 1..Len(ks) : ks[i] \in VarTags => \A y \in x[i] : ~(y.d = i /\ y.s = 1)},
        b2 \in {x \in [PrIdx(ks) -> Bodies(ks, m)] : self \/ \A i \in PrIdx(ks) : \A y \in x[i] : ~(y.d = i /\ y.s = 2)},
        fl \in Layouts(Len(ks), mode)}

\* every graph without a cycle (no recursion either), built along each topological order
Perms(n) == {f \in [1..n -> 1..n] : \A i, j \in 1..n : i # j => f[i] # f[j]}
BodiesOn(ks, D, m) ==
    {{Ref(0, t[1], t[2]) : t \in T} : T \in {S \in SUBSET {t \in Targets(ks) : t[1] \in D} : Cardinality(S) <= m}}
RECURSIVE DagBodies(_, _, _, _)
DagBodies(ks, pi, i, m) ==
    IF i = 0 THEN {<<>>}
    ELSE {g @@ (pi[i] :> b) : g \in DagBodies(ks, pi, i - 1, m),
                              b \in BodiesOn(ks, {pi[j] : j \in 1..(i - 1)}, m)}
DagPkgsOf(ks, m, mode) ==
    {MkPkg(ks, b, <<>>, fl) :
        b  \in UNION {DagBodies(ks, pi, Len(ks), m) : pi \in Perms(Len(ks))},
        fl \in Layouts(Len(ks), mode)}

\* (a) all dependency graphs over nv variables and nf functions/methods, <= m references per body
Graphs(nv, nf, ft, m, lay, self) == {<<pk>> : pk \in PkgsOf(Rep("v1", nv) \o Rep(ft, nf), m, 0, lay, self)}
\* (a') all acyclic ones (bigger bounds)
Dags(nv, nf, ft, m, lay) == {<<pk>> : pk \in DagPkgsOf(Rep("v1", nv) \o Rep(ft, nf), m, lay)}
\* (b) all kinds of variable declaration (at most one "pr", which has two bodies)
Kinds(nv, m, lay) == {<<pk>> : pk \in UNION {PkgsOf(ks, m, 0, lay, FALSE) :
                                 ks \in {x \in [1..nv -> VarTags] : Cardinality(PrIdx(x)) <= 1}}}
\* (c) init functions among the variables, over up to three files
Inits(n, lay) == {<<pk>> : pk \in UNION {PkgsOf(ks, 1, 1, lay, FALSE) :
                                 ks \in {x \in [1..n -> {"v1", "in"}] : \E i \in 1..n : x[i] = "in"}}}
\* (d) all import graphs over np packages in which main reaches every package;
\* every package: one variable that reads the variable of each import, one init
ImpGraphs(n) == {g \in [1..n -> SUBSET (1..n)] :
                   /\ \A p \in 1..n : \A q \in g[p] : q > p
                   /\ \A q \in 2..n : \E p \in 1..(q - 1) : q \in g[p]}
SmallPkg(imp, two) ==
    [imp |-> imp,
     d |-> <<[k |-> "v1", r |-> {Ref(q, 1, 1) : q \in imp}, r2 |-> {}, f |-> 1, sh |-> 0],
             [k |-> "in", r |-> {}, r2 |-> {}, f |-> IF two THEN 2 ELSE 1, sh |-> 0]>>]
Pkgs(np) == {[p \in 1..np |-> SmallPkg(g[p], two)] : g \in ImpGraphs(np), two \in BOOLEAN}

\* (e) shared helpers: three variables that only refer to functions, two functions that refer to at
\* most one variable and at most one function (each other, or themselves), at least one function
\* referring to a function.  The dependencies of a variable pass through chains of calls that other
\* variables share in part, entered at different places: a helper reached through f, or directly.
HelperPkgs ==
    LET ks == <<"v1", "v1", "v1", "fn", "fn">>
        VB == {{Ref(0, d, 1) : d \in T} : T \in SUBSET {4, 5}}
        FB == {{Ref(0, v, 1) : v \in V} \cup {Ref(0, g, 1) : g \in G} : V \in {{}, {1}, {2}, {3}}, G \in {{}, {4}, {5}}}
    IN {MkPkg(ks, [i \in 1..5 |-> IF i <= 3 THEN vb[i] ELSE fb[i - 3]], <<>>, Rep(1, 5)) :
            vb \in [1..3 -> VB],
            fb \in {x \in [1..2 -> FB] : \E i \in 1..2 : \E y \in x[i] : y.d \in {4, 5}}}

Fam(f) ==
    CASE f = "all-3v0f"  -> Graphs(3, 0, "fn", 2, "two", FALSE)
      [] f = "helpers-3v2f" -> {<<pk>> : pk \in HelperPkgs}
      [] f = "all-2v1f"  -> Graphs(2, 1, "fn", 2, "two", FALSE)
      [] f = "self-2v1f" -> Graphs(2, 1, "mt", 2, "one", TRUE)
      [] f = "all-2v2f"  -> Graphs(2, 2, "fn", 2, "mid", FALSE)
      [] f = "all-3v1f"  -> Graphs(3, 1, "mt", 2, "mid", FALSE)
      [] f = "all-4v0f"  -> Graphs(4, 0, "fn", 2, "mid", FALSE)
      [] f = "dag-4v0f"  -> Dags(4, 0, "fn", 2, "two")
      [] f = "dag-3v1f"  -> Dags(3, 1, "fn", 2, "mid")
      [] f = "dag-2v2f"  -> Dags(2, 2, "mt", 2, "mid")
      [] f = "dag-4v1f"  -> Dags(4, 1, "fn", 2, "mid")
      [] f = "dag-3v2f"  -> Dags(3, 2, "fn", 2, "mid")
      [] f = "dag-5v0f"  -> Dags(5, 0, "fn", 2, "mid")
      [] f = "kinds-2"   -> Kinds(2, 2, "mid")
      [] f = "kinds-3"   -> Kinds(3, 1, "mid")
      [] f = "inits-3"   -> Inits(3, "three")
      [] f = "inits-4"   -> Inits(4, "three")
      [] f = "v2read"    -> {<<pk>> : pk \in PkgsOf(<<"v2", "fn", "in">>, 2, 2, "one", FALSE)}
      [] f = "pkgs-3"    -> Pkgs(3)
      [] f = "pkgs-4"    -> Pkgs(4)

InitFams == prog \in UNION {Fam(f) : f \in Fams} /\ phase = "new" /\ cur = 0 /\ pdone = {} /\ log = <<>> /\ rnd = <<>>
SpecFams == InitFams /\ [][Step]_vars

-------------------------------------------------------------------------------
(* Seeded simulation: bigger random programs.  TLC re-evaluates a LET           *)
(* definition that contains RandomElement at every use, so the random choices  *)
(* are drawn ONCE into the state variable rnd (a vector of integers) and the    *)
(* program is a deterministic function of that vector.                          *)
RMod    == 5040
RPerD   == 16                       \* random numbers per declaration
RDecls  == 15                       \* declaration positions 0..14 per package (0: the package itself)
RSize   == 4 * RDecls * RPerD
Rn(rv, p, i, j) == rv[((p - 1) * RDecls + i) * RPerD + j]

VarBag == <<"v1", "v1", "v1", "v1", "v1", "v1", "v2", "pr", "vb">>
FunBag == <<"fn", "fn", "mt">>
KBag   == <<0, 1, 1, 2, 2, 3>>
K2Bag  == <<0, 1, 1, 2>>
FromBag(bag, x) == bag[(x % Len(bag)) + 1]

\* a uniformly shuffled sequence of nv variable, nf function and ni init tags
RECURSIVE TagsFrom(_, _, _, _, _, _)
TagsFrom(rv, p, i, nv, nf, ni) ==
    IF nv + nf + ni = 0 THEN <<>>
    ELSE LET x == (Rn(rv, p, i, 1) % (nv + nf + ni)) + 1 IN
         IF x <= nv THEN <<FromBag(VarBag, Rn(rv, p, i, 2))>> \o TagsFrom(rv, p, i + 1, nv - 1, nf, ni)
         ELSE IF x <= nv + nf THEN <<FromBag(FunBag, Rn(rv, p, i, 2))>> \o TagsFrom(rv, p, i + 1, nv, nf - 1, ni)
         ELSE <<"in">> \o TagsFrom(rv, p, i + 1, nv, nf, ni - 1)

MinI(a, b) == IF a < b THEN a ELSE b
RefBefore(a, b) == a.p < b.p \/ (a.p = b.p /\ (a.d < b.d \/ (a.d = b.d /\ a.s < b.s)))
RECURSIVE RefSeq(_)
RefSeq(S) == IF S = {} THEN <<>>
             ELSE LET m == CHOOSE x \in S : \A y \in S : x = y \/ RefBefore(x, y)
                  IN <<m>> \o RefSeq(S \ {m})
\* k elements of the sequence sq, chosen by the random numbers j, j+1, ... of (p, i)
RECURSIVE PickK(_, _, _, _, _, _)
PickK(rv, p, i, j, sq, k) ==
    IF k = 0 \/ sq = <<>> THEN {}
    ELSE LET x == (Rn(rv, p, i, j) % Len(sq)) + 1
         IN {sq[x]} \cup PickK(rv, p, i, j + 1, RemoveAt(sq, x), k - 1)

\* references to what the imported packages export
ExtTargets(pkgs, imp) ==
    UNION {{Ref(q, t[1], t[2]) : t \in Targets([i \in 1..Len(pkgs[q].d) |-> pkgs[q].d[i].k])} : q \in imp}

\* Most bodies refer to declarations of lower rank (rank: a hidden random order,
\* unrelated to the declaration order), which keeps the graph acyclic; one body
\* in thirty is free to refer to anything (recursion, initialisation cycles).
\* j0: first of the four random numbers used (wild, count, picks...)
\* Excluded_F_C15_6 (known finding F-C15-6, pinned in family "v2read"): the body of a
\* function, method or init function reads a variable declared by `var a, b = f()`;
\* the interpreter does not read the initialised value there (zero, junk or panic).
Excluded_F_C15_6(ki, kt) == FALSE      \* repaired (de79d41): bodies may read the variables of var a, b = f()
LocalBody(rv, p, ks, i, jw, jk, jp, kbag) ==
    LET wild  == ks[i] = "in" \/ Rn(rv, p, i, jw) % 30 = 0
        cand0 == IF wild THEN Targets(ks)
                 ELSE {t \in Targets(ks) : Rn(rv, p, t[1], 3) < Rn(rv, p, i, 3)}
        cands == {t \in cand0 : ~Excluded_F_C15_6(ks[i], ks[t[1]])}
        sq    == RefSeq({Ref(0, t[1], t[2]) : t \in cands})
    IN PickK(rv, p, i, jp, sq, FromBag(kbag, Rn(rv, p, i, jk)))
ExtBody(rv, p, i, ext) == PickK(rv, p, i, 10, RefSeq(ext), FromBag(<<0, 0, 1>>, Rn(rv, p, i, 9)))
Shadow(rv, p, ks, i) ==
    LET c == {j \in 1..Len(ks) : ks[j] = "v1" /\ j # i}
    IN IF c # {} /\ ks[i] \in {"v1", "fn", "mt"} /\ Rn(rv, p, i, 11) % 6 = 0
         THEN CHOOSE j \in c : Cardinality({x \in c : x < j}) = Rn(rv, p, i, 12) % Cardinality(c)
         ELSE 0

GenPkg(rv, p, pkgs, imp, maxv, maxf) ==
    LET ks  == TagsFrom(rv, p, 1, (Rn(rv, p, 0, 1) % maxv) + 1, Rn(rv, p, 0, 2) % (maxf + 1), Rn(rv, p, 0, 3) % 3)
        n   == Len(ks)
        ext == ExtTargets(pkgs, imp)
        c1  == Rn(rv, p, 0, 4) % (n + 1)
        c2  == c1 + (Rn(rv, p, 0, 5) % (n + 3 - c1))
    IN [imp |-> imp,
        d |-> [i \in 1..n |->
                 [k |-> ks[i],
                  r |-> LocalBody(rv, p, ks, i, 4, 5, 6, KBag)
                        \cup ExtBody(rv, p, i, {x \in ext : ~Excluded_F_C15_6(ks[i], pkgs[x.p].d[x.d].k)}),
                  r2 |-> IF ks[i] = "pr" THEN LocalBody(rv, p, ks, i, 13, 14, 15, K2Bag) ELSE {},
                  f |-> 1 + (IF i > c1 THEN 1 ELSE 0) + (IF i > c2 THEN 1 ELSE 0),
                  sh |-> Shadow(rv, p, ks, i)]]]

\* import shapes: alone, chain, fan, triangle, diamonds
Shapes == << <<{}>>, <<{}>>, <<{2}, {}>>, <<{2, 3}, {}, {}>>, <<{2}, {3}, {}>>, <<{2, 3}, {3}, {}>>,
             <<{2, 3}, {4}, {4}, {}>>, <<{2, 3, 4}, {4}, {4}, {}>>, <<{2, 3}, {4}, {}, {}>> >>

\* packages are generated from the last (imports nothing) to main
RECURSIVE GenPkgs(_, _, _, _)
GenPkgs(rv, shape, p, acc) ==
    IF p = 0 THEN acc
    ELSE GenPkgs(rv, shape, p - 1,
                 [acc EXCEPT ![p] = IF p = 1 THEN GenPkg(rv, p, acc, shape[p], 8, 3)
                                             ELSE GenPkg(rv, p, acc, shape[p], 4, 2)])
EmptyPkg == [imp |-> {}, d |-> <<>>]
ProgOf(rv) ==
    LET shape == FromBag(Shapes, rv[RSize])
    IN GenPkgs(rv, shape, Len(shape), [p \in 1..Len(shape) |-> EmptyPkg])

InitSim == prog = <<EmptyPkg>> /\ phase = "idle" /\ cur = 0 /\ pdone = {} /\ log = <<>> /\ rnd = <<>>
Regen ==
    /\ phase \in {"idle", "done", "reject"}
    /\ rnd' = [x \in 1..RSize |-> RandomElement(0..(RMod - 1))]
    /\ prog' = ProgOf(rnd')
    /\ phase' = "new" /\ cur' = 0 /\ pdone' = {} /\ log' = <<>>
SpecSim == InitSim /\ [][Regen \/ Step]_vars
===============================================================================
