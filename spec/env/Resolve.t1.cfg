SPECIFICATION Spec
CONSTANTS MaxDepth = 3 MaxPkgs = 2 MaxImports = 2 MaxPerFile = 2 MainKinds = {"string", "file"} MaxMainDepth = 1 AllowRel = TRUE Family = "all"
INVARIANTS TypeOK NearestVendorWins RelativeJoins Deterministic Once OnceOnDiamonds CyclesReported Emit
