------------------------------- MODULE Resolve -------------------------------
(* C16 - source imports resolve to the right directory, once, without cycles.   *)
(*                                                                             *)
(* The module states where an import statement of a source file leads          *)
(* (`go help gopath`, "Vendor Directories": the nearest enclosing vendor       *)
(* directory that contains the package, otherwise GOPATH/src; a relative       *)
(* import is joined to the directory of the importing file), and what loading  *)
(* a program does with the answers: every package directory is initialised     *)
(* exactly once however many importers it has, imported packages before their  *)
(* importers, and an import cycle ends the load with an error.                 *)
(*                                                                             *)
(* It is used as generator + oracle.  A CASE is a directory tree below         *)
(* GOPATH/src (a set of package directories over the path elements a, b,       *)
(* vendor), a main program (given as a source string, or as a file located in  *)
(* a directory below GOPATH/src) and the import statements of every file that  *)
(* the load reaches.  Import statements are synthesised lazily: the first time *)
(* the loader enters a file, the enabled choices are the import lists the      *)
(* grammar allows for it (Synth), so every generated statement is resolved at  *)
(* least once.  The loader itself (Step/Finish) is the deterministic part.     *)
(* Every terminal state is handed to the harness (Emit) with the predicted     *)
(* visit log / error class; the harness renders the tree on disk and as a      *)
(* fs.FS, runs the real interpreter and compares.                              *)
EXTENDS Integers, Sequences, FiniteSets, FiniteSetsExt, TLC, Json, Randomization

CONSTANTS MaxDepth,     \* longest package directory, in elements below GOPATH/src
          MaxPkgs,      \* package directories in a tree
          MaxImports,   \* import statements in a program (all files together)
          MaxPerFile,   \* import statements in one file
          MainKinds,    \* subset of {"string", "file"}
          MaxMainDepth, \* deepest directory for a main file
          AllowRel,     \* generate relative imports
          Family,       \* "all" | "multi" | "triple" | "nested" | "chain": which trees the exhaustive Init takes
          Excl          \* apply the named exclusions of the known findings

Names == {"a", "b"}
Elems == Names \cup {"vendor"}
Root     == <<>>            \* GOPATH/src itself
NotFound == <<"?">>         \* not a directory ("?" is not a path element)
MainId   == <<"main">>      \* identity of the main program in who-fields

SeqsFromTo(S, lo, hi) == UNION {[1..k -> S] : k \in lo..hi}

\* a package directory ends in a name (a directory called vendor holds packages, it is none)
PkgDirs(n) == {d \in SeqsFromTo(Elems, 1, n) : d[Len(d)] \in Names}

-------------------------------------------------------------------------------
(* Directories and import paths.                                               *)
IsPrefix(p, d) == Len(p) <= Len(d) /\ SubSeq(d, 1, Len(p)) = p
Front(d)       == SubSeq(d, 1, Len(d) - 1)

LastVendor(d) == LET V == {i \in 1..Len(d) : d[i] = "vendor"} IN IF V = {} THEN 0 ELSE Max(V)
\* the path under which the directory can be imported
PathOf(d)  == SubSeq(d, LastVendor(d) + 1, Len(d))
\* the directory whose vendor directory holds d; only meaningful when LastVendor(d) > 0
HomeOf(d)  == SubSeq(d, 1, LastVendor(d) - 1)
\* how deep the holder is: -1 stands for "directly below GOPATH/src"
HomeLen(d) == IF LastVendor(d) = 0 THEN -1 ELSE LastVendor(d) - 1

(* Declarative statement of the vendor rule: a directory d of the tree answers *)
(* the import of path P by a file in directory I when it is a copy of P that   *)
(* sits directly below GOPATH/src or in the vendor directory of I or of one of *)
(* I's ancestors (GOPATH/src included) ...                                     *)
Visible(T, d, I, P) ==
    /\ d \in T
    /\ PathOf(d) = P
    /\ (LastVendor(d) = 0 \/ IsPrefix(HomeOf(d), I))
(* ... and no other such copy is held nearer to I.                             *)
Nearest(T, d, I, P) ==
    /\ Visible(T, d, I, P)
    /\ \A e \in T : Visible(T, e, I, P) => HomeLen(e) <= HomeLen(d)

(* Operational statement, the way a loader computes it: walk from I up to      *)
(* GOPATH/src looking at <ancestor>/vendor/P, then look at GOPATH/src/P.       *)
Candidates(I, P) ==
    [i \in 1..(Len(I) + 1) |-> SubSeq(I, 1, Len(I) + 1 - i) \o <<"vendor">> \o P] \o <<P>>
Resolve(T, I, P) ==
    LET c    == Candidates(I, P)
        hits == {i \in 1..Len(c) : c[i] \in T}
    IN IF hits = {} THEN NotFound ELSE c[Min(hits)]

\* import statements: k = "abs" (P), "dot" (./P), "up" (../P)
Abs(P) == [k |-> "abs", p |-> P]
Dot(P) == [k |-> "dot", p |-> P]
Up(P)  == [k |-> "up",  p |-> P]

\* where an import statement of a file in directory I leads
Target(T, I, imp) ==
    CASE imp.k = "abs" -> Resolve(T, I, imp.p)
      [] imp.k = "dot" -> IF (I \o imp.p) \in T THEN I \o imp.p ELSE NotFound
      [] imp.k = "up"  -> IF Len(I) >= 1 /\ (Front(I) \o imp.p) \in T THEN Front(I) \o imp.p ELSE NotFound

-------------------------------------------------------------------------------
VARIABLES tree,    \* set of package directories below GOPATH/src
          sit,     \* "string": main is a source string; "file": main.go lies in mdir
          mdir,    \* directory of the main file (Root for a string)
          code,    \* sequence of [who, imps]: the files entered so far, in order
          stack,   \* load stack, sequence of [who, done]; done = indices of processed imports
          log,     \* visit log: package directories in the order they were initialised
          res,     \* resolution log: [from, imp, to, alt]
          status,  \* "tree" (simulation: the tree is being drawn) | "load" | "ok" | "cycle" | "notfound"
          pin,     \* 0, or the number of the pinned witness that is being loaded
          grow     \* simulation only: package directories still to be drawn for the tree
vars == <<tree, sit, mdir, code, stack, log, res, status, pin, grow>>

DirOf(w)   == IF w = MainId THEN mdir ELSE w
HasCode(w) == \E i \in 1..Len(code) : code[i].who = w
Imps(w)    == code[CHOOSE i \in 1..Len(code) : code[i].who = w].imps
Rng(s)     == {s[i] : i \in 1..Len(s)}
OnStack    == {stack[i].who : i \in 1..Len(stack)}
NImports   == LET RECURSIVE Sum(_)
                  Sum(i) == IF i = 0 THEN 0 ELSE Len(code[i].imps) + Sum(i - 1)
              IN Sum(Len(code))

\* every import statement generated so far with the directory it leads to
PlannedOK == UNION {{[imp |-> code[i].imps[j], to |-> Target(tree, DirOf(code[i].who), code[i].imps[j])] :
               j \in 1..Len(code[i].imps)} : i \in 1..Len(code)}
\* packages reached through a relative import ("local" packages in the toolchain's words)
Local == {q.to : q \in {x \in PlannedOK : x.imp.k # "abs"}}

-------------------------------------------------------------------------------
(* Grammar of import lists (what Synth may choose for the file `w`).           *)
(* Restrictions, named so that their width can be audited:                     *)
(*  RelativeOnlyFromLocal  relative imports appear in a main FILE and in       *)
(*      packages that were themselves reached through relative imports; the    *)
(*      toolchain refuses "local import in non-local package".                 *)
(*  LocalOnlyRelative      packages reached relatively import relatively only: *)
(*      what an absolute import means inside a package that has no import path *)
(*      is not fixed by the property (the toolchain aborts on it in GOPATH).   *)
(*  NoMixedDesignation     one directory is not designated both relatively and *)
(*      absolutely in one program (the toolchain builds two packages then;     *)
(*      the property counts packages by directory).                            *)
PathsPresent(T) == {PathOf(d) : d \in T}

RelOK(w)  == AllowRel /\ ((w = MainId /\ sit = "file") \/ w \in Local)
AbsOK(w)  == w \notin Local

\*  MainDirNotImportable   the directory of the main file is no candidate answer of an
\*      import of the program (the toolchain then finds "package main" there).
MainDirNotImportable(w, P) ==
    sit = "file" => \A i \in 1..(Len(DirOf(w)) + 2) : Candidates(DirOf(w), P)[i] # mdir

\*  OwnPathOnlySelf        a package imports its own import path only when that leads back
\*      to itself (a cycle of length one); when a nearer vendored copy of the same path
\*      answers, the toolchain resolves as the rule says but its compiler then refuses the
\*      package ("import cycle"), so there is no reference for that case.
OwnPathOnlySelf(w, P) == (w # MainId /\ PathOf(w) = P) => Resolve(tree, w, P) = w

ImpOptions(w) ==
    LET I == DirOf(w) IN
    (IF AbsOK(w) THEN {Abs(P) : P \in {Q \in PathsPresent(tree) \cup {<<x>> : x \in Names} :
                                          MainDirNotImportable(w, Q) /\ OwnPathOnlySelf(w, Q)}} ELSE {})
    \cup
    (IF RelOK(w)
       THEN {Dot(<<x>>) : x \in {y \in Names : (I \o <<y>>) \in tree}}
            \cup {Up(<<x>>) : x \in {y \in Names : Len(I) >= 1 /\ (Front(I) \o <<y>>) \in tree}}
       ELSE {})

Mixed(w, imp) ==
    LET t == Target(tree, DirOf(w), imp) IN
    t # NotFound /\ \E q \in PlannedOK : q.to = t /\ (q.imp.k = "abs") # (imp.k = "abs")

\* lists of distinct statements, at most MaxPerFile and within the program's budget
ListsOver(S, n) ==
    {l \in SeqsFromTo(S, 0, n) : \A i, j \in 1..Len(l) : i # j => l[i] # l[j]}
NoMixedInside(w, l) ==
    \A i, j \in 1..Len(l) :
        (i # j /\ (l[i].k = "abs") # (l[j].k = "abs"))
           => \/ Target(tree, DirOf(w), l[i]) = NotFound
              \/ Target(tree, DirOf(w), l[i]) # Target(tree, DirOf(w), l[j])

(* Known findings (DESIGN 2.4).  Each predicate says, for an import statement  *)
(* `imp` of the file `w` in the current case, that the statement contains the  *)
(* construct which triggers the finding.  The predicates serve twice: as named *)
(* exclusions of the generators (constant Excl; one pinned witness per finding *)
(* is generated by SpecPin without exclusions), and as the trigger part of the *)
(* signature of a failing case (emitted with every resolution, field trig).    *)
NonRootPrefixes(d) == {SubSeq(d, 1, n) : n \in 1..Len(d)}
\* some directory of that name exists below GOPATH/src, package or not
\* (the main file's directory and its ancestors exist too)
DirExists(T, d) == (\E e \in T : IsPrefix(d, e)) \/ (sit = "file" /\ IsPrefix(d, mdir))

\* F-C16-1: an absolute import path of exactly two equal elements ("a/a")
Excluded_F_C16_1(w, imp) == imp.k = "abs" /\ Len(imp.p) = 2 /\ imp.p[1] = imp.p[2]
\* F-C16-2: import strings and directories do not correspond one to one in the program:
\* one string designates two different directories (a path vendored by one importer and not
\* by another, "./x" in two directories), or two strings designate one directory ("./x", "../x")
Excluded_F_C16_2(w, imp) ==
    LET t == Target(tree, DirOf(w), imp) IN
    \E q \in PlannedOK : (q.imp = imp /\ q.to # t) \/ (q.imp # imp /\ q.to = t /\ t # NotFound)
\* F-C16-2 is REPAIRED for absolute imports (08b9d7c: packages are memoised by directory); what is still keyed by
\* the import string is the relative import: only those statements stay out of the generators
Still_F_C16_2(w, imp) ==
    LET t == Target(tree, DirOf(w), imp) IN
    \E q \in PlannedOK : /\ (imp.k # "abs" \/ q.imp.k # "abs")
                          /\ ((q.imp = imp /\ q.to # t) \/ (q.imp # imp /\ q.to = t /\ t # NotFound))
\* F-C16-3: the program is a main FILE and its own location matters for the answer:
\* the file's import would be answered differently from GOPATH/src itself, or an import
\* that no package of the program can see is visible from the main file's directory
Excluded_F_C16_3(w, imp) ==
    /\ sit = "file" /\ imp.k = "abs"
    /\ \/ w = MainId /\ Resolve(tree, mdir, imp.p) # Resolve(tree, Root, imp.p)
       \/ w # MainId /\ Resolve(tree, w, imp.p) = NotFound /\ Resolve(tree, mdir, imp.p) # NotFound
\* F-C16-4: a directory that is no candidate of the vendor rule exists and is not the answer,
\* namely Probe(A, path) for A the importing file's directory or one of its ancestors below
\* GOPATH/src: A joined with the path, or - when A has two elements or more and its last
\* element occurs in the path before the path's last element - A joined with what follows
\* the last such occurrence ("b/c" imported from x/b: x/b/c).  When the import has no answer
\* and the program is a main file, the same with the main file's directory for A.
Probe(A, P) ==
    LET n == Len(P)
        J == {j \in 1..(n - 1) : P[j] = A[Len(A)]}
    IN IF Len(A) >= 2 /\ J # {} THEN A \o SubSeq(P, Max(J) + 1, n) ELSE A \o P
Excluded_F_C16_4(w, imp) ==
    imp.k = "abs" /\
    LET t == Target(tree, DirOf(w), imp)
        As == NonRootPrefixes(DirOf(w)) \cup
              (IF sit = "file" /\ t = NotFound THEN NonRootPrefixes(mdir) ELSE {})
    IN \E A \in As : /\ Probe(A, imp.p) # t
                      \* (a directory without Go files in place of "not found" is an error all the same)
                      /\ IF t = NotFound THEN Probe(A, imp.p) \in tree \/ (sit = "file" /\ Probe(A, imp.p) = mdir)
                                         ELSE DirExists(tree, Probe(A, imp.p))
                      \* (not when the answer is held by A or by a directory below A: the walk
                      \* towards GOPATH/src finds the answer before it comes to Probe(A, path))
                      /\ (t = NotFound \/ Len(A) > HomeLen(t))
\* F-C16-5: a candidate directory that exists but holds no package (no Go files) comes
\* before the answer
Excluded_F_C16_5(w, imp) ==
    imp.k = "abs" /\
    LET c == Candidates(DirOf(w), imp.p)
        t == Target(tree, DirOf(w), imp)
    IN t # NotFound /\
       \E i \in 1..Len(c) : /\ c[i] \notin tree /\ DirExists(tree, c[i])
                            /\ \A j \in 1..Len(c) : c[j] = t => i < j
\* F-C16-3 is REPAIRED for the imports of the main file itself (5f774f5); what is left is the retry from the main
\* file's location for an import that a PACKAGE of the program cannot see
Still_F_C16_3(w, imp) ==
    /\ sit = "file" /\ imp.k = "abs"
    /\ w # MainId /\ Resolve(tree, w, imp.p) = NotFound /\ Resolve(tree, mdir, imp.p) # NotFound
TrigSet(w, imp) ==
    (IF Excluded_F_C16_1(w, imp) THEN {1} ELSE {}) \cup (IF Excluded_F_C16_2(w, imp) THEN {2} ELSE {}) \cup
    (IF Excluded_F_C16_3(w, imp) THEN {3} ELSE {}) \cup (IF Excluded_F_C16_4(w, imp) THEN {4} ELSE {}) \cup
    (IF Excluded_F_C16_5(w, imp) THEN {5} ELSE {})
\* F-C16-1 and F-C16-4 are REPAIRED in /repo (9f9a196, 169b78e): their constructs are generated again
\* (the predicates still compute the trigger of a failing case)
\* F-C16-2 and F-C16-3 are repaired in part: the exclusion is what is left of them
Excluded(w, imp) == TrigSet(w, imp) \ {1, 2, 3, 4} # {} \/ Still_F_C16_2(w, imp) \/ Still_F_C16_3(w, imp)

SynthOptions(w, excl) ==
    LET S  == {imp \in ImpOptions(w) : ~Mixed(w, imp) /\ (excl => ~Excluded(w, imp))}
        n0 == IF MaxImports - NImports < MaxPerFile THEN MaxImports - NImports ELSE MaxPerFile
        L  == {l \in ListsOver(S, n0) : NoMixedInside(w, l)}
    IN IF w = MainId /\ L # {<<>>} THEN L \ {<<>>} ELSE L   \* a main without imports says nothing

-------------------------------------------------------------------------------
(* The loader.                                                                 *)
Top == stack[Len(stack)]

\* entering a file for the first time: its import list is chosen
Synth(excl, rnd) ==
    /\ status = "load" /\ stack # <<>> /\ ~HasCode(Top.who)
    /\ LET O == SynthOptions(Top.who, excl) IN
       IF rnd THEN code' = Append(code, [who |-> Top.who, imps |-> RandomElement(O)])
              ELSE \E l \in O : code' = Append(code, [who |-> Top.who, imps |-> l])
    /\ UNCHANGED <<tree, sit, mdir, stack, log, res, status, pin, grow>>

\* processing the i-th import statement of the file on top of the stack
StepAt(i) ==
    LET w   == Top.who
        imp == Imps(w)[i]
        t   == Target(tree, DirOf(w), imp)
        alt == IF imp.k = "abs" THEN Resolve(tree, Root, imp.p) ELSE t
        mark == [stack EXCEPT ![Len(stack)].done = @ \cup {i}]
    IN /\ res' = Append(res, [from |-> w, imp |-> imp, to |-> t, alt |-> alt])
       /\ CASE t = NotFound      -> status' = "notfound" /\ stack' = mark
            [] t \in OnStack     -> status' = "cycle"    /\ stack' = mark
            [] t \in Rng(log)  -> status' = status     /\ stack' = mark   \* loaded before: once
            [] OTHER             -> status' = status     /\ stack' = Append(mark, [who |-> t, done |-> {}])
       /\ UNCHANGED <<tree, sit, mdir, code, log, pin, grow>>

Todo == (1..Len(Imps(Top.who))) \ Top.done

\* statements are processed in source order ...
Step ==
    /\ status = "load" /\ stack # <<>> /\ HasCode(Top.who) /\ Todo # {}
    /\ StepAt(Min(Todo))
\* ... or, for the order-independence check, in any order
StepAny ==
    /\ status = "load" /\ stack # <<>> /\ HasCode(Top.who) /\ Todo # {}
    /\ \E i \in Todo : StepAt(i)

\* all imports of the file are loaded: the package is initialised (main: the program ran)
Finish ==
    /\ status = "load" /\ stack # <<>> /\ HasCode(Top.who) /\ Todo = {}
    /\ stack' = SubSeq(stack, 1, Len(stack) - 1)
    /\ IF Top.who = MainId THEN status' = "ok" /\ log' = log
                           ELSE status' = status /\ log' = Append(log, Top.who)
    /\ UNCHANGED <<tree, sit, mdir, code, res, pin, grow>>

StartLoad(T, s, m) ==
    /\ tree = T /\ sit = s /\ mdir = m /\ pin = 0 /\ grow = 0
    /\ code = <<>> /\ stack = <<[who |-> MainId, done |-> {}]>>
    /\ log = <<>> /\ res = <<>> /\ status = "load"

-------------------------------------------------------------------------------
(* Exhaustive generation.                                                      *)
Trees == UNION {kSubset(k, PkgDirs(MaxDepth)) : k \in 1..MaxPkgs}
\* trees in which some import path is present in several places
Multi(T) == \E d, e \in T : d # e /\ PathOf(d) = PathOf(e)
\* trees in which some import path is present in three places
Triple(T) == \E d, e, f \in T : d # e /\ e # f /\ d # f /\ PathOf(d) = PathOf(e) /\ PathOf(e) = PathOf(f)
\* trees with a package directory d BELOW another package directory I (two elements or more) and a third directory e
\* whose import path is the last element of I followed by what d adds to I (I = x/lib, d = x/lib/sub, e = lib/sub):
\* an import of "lib/sub" in I has the directory I/sub lying next to it, which is no candidate of the vendor rule
Nested(T) == \E I, d, e \in T :
                /\ Len(I) >= 2 /\ d # I /\ IsPrefix(I, d) /\ e # d
                /\ PathOf(e) = <<I[Len(I)]>> \o SubSeq(d, Len(I) + 1, Len(d))
\* trees in which one copy d of an import path leads to ANOTHER copy e of the same path through a third package q
\* (d imports q, q imports the path and gets e): two packages under one import path on one import chain, no cycle
Chain(T) == \E d, e, q \in T :
                /\ d # e /\ PathOf(d) = PathOf(e) /\ q \notin {d, e}
                /\ Resolve(T, d, PathOf(q)) = q /\ Resolve(T, q, PathOf(e)) = e
FamilyTrees == CASE Family = "multi"  -> {T \in Trees : Multi(T)}
                 [] Family = "chain"  -> {T \in Trees : Chain(T)}
                 [] Family = "triple" -> {T \in Trees : Triple(T)}
                 [] Family = "nested" -> {T \in Trees : Nested(T)}
                 [] OTHER -> Trees
\* a main file lies in a directory that is no package directory
\* and not inside a vendor directory (MainNotInVendor: the toolchain aborts on such a layout)
\* and not GOPATH/src itself (MainNotAtRoot: a file there has no import path, the toolchain does
\* not apply the vendor rule to it)
MainDirs(T) == {d \in SeqsFromTo(Names, 1, MaxMainDepth) : d \notin T}

Init ==
    \E T \in FamilyTrees :
      \E s \in MainKinds :
        \E m \in (IF s = "file" THEN MainDirs(T) ELSE {Root}) :
            StartLoad(T, s, m)

Next    == Synth(Excl, FALSE) \/ Step \/ Finish
NextAny == Synth(Excl, FALSE) \/ StepAny \/ Finish
Spec    == Init /\ [][Next]_vars
SpecAny == Init /\ [][NextAny]_vars

-------------------------------------------------------------------------------
(* Pinned witnesses: one complete program per known finding, loaded without    *)
(* exclusions, so that every finding is still exercised and printed.           *)
A1 == <<"a">>
B1 == <<"b">>
Witnesses == <<
  \* 1: import "a/a" (GOPATH/src/a/a) while GOPATH/src/a exists
  [tree |-> {A1, <<"a", "a">>}, sit |-> "string", mdir |-> Root,
   prog |-> <<[who |-> MainId, imps |-> <<Abs(<<"a", "a">>)>>]>>],
  \* 2: a vendors b, main imports a and then b (GOPATH/src/b)
  [tree |-> {A1, B1, <<"a", "vendor", "b">>}, sit |-> "string", mdir |-> Root,
   prog |-> <<[who |-> MainId, imps |-> <<Abs(A1), Abs(B1)>>], [who |-> A1, imps |-> <<Abs(B1)>>]>>],
  \* 3: main file in GOPATH/src/a, which vendors b
  [tree |-> {<<"a", "vendor", "b">>}, sit |-> "file", mdir |-> A1,
   prog |-> <<[who |-> MainId, imps |-> <<Abs(B1)>>]>>],
  \* 4: package a imports "b" while GOPATH/src/a/b exists beside GOPATH/src/b
  [tree |-> {A1, B1, <<"a", "b">>}, sit |-> "string", mdir |-> Root,
   prog |-> <<[who |-> MainId, imps |-> <<Abs(A1)>>], [who |-> A1, imps |-> <<Abs(B1)>>]>>],
  \* 5: import "a" while GOPATH/src/vendor/a is a directory without Go files
  [tree |-> {A1, <<"vendor", "a", "b">>}, sit |-> "string", mdir |-> Root,
   prog |-> <<[who |-> MainId, imps |-> <<Abs(A1)>>]>>]
>>
ProgOf(n, w) ==
    LET p == Witnesses[n].prog
        I == {i \in 1..Len(p) : p[i].who = w}
    IN IF I = {} THEN <<>> ELSE p[CHOOSE i \in I : TRUE].imps
SynthPin ==
    /\ status = "load" /\ stack # <<>> /\ ~HasCode(Top.who) /\ pin # 0
    /\ code' = Append(code, [who |-> Top.who, imps |-> ProgOf(pin, Top.who)])
    /\ UNCHANGED <<tree, sit, mdir, stack, log, res, status, pin, grow>>
InitPin ==
    \E n \in 1..Len(Witnesses) :
        /\ tree = Witnesses[n].tree /\ sit = Witnesses[n].sit /\ mdir = Witnesses[n].mdir /\ pin = n /\ grow = 0
        /\ code = <<>> /\ stack = <<[who |-> MainId, done |-> {}]>>
        /\ log = <<>> /\ res = <<>> /\ status = "load"
SpecPin == InitPin /\ [][SynthPin \/ Step \/ Finish]_vars

-------------------------------------------------------------------------------
(* Seeded simulation: deeper and larger trees, drawn with a bias towards the   *)
(* same path in several places; one long behaviour runs many programs.  Every  *)
(* random value is drawn exactly once, into a primed variable (a LET-bound     *)
(* RandomElement would be drawn again at each use).                            *)
Pools(T) ==
    LET plain == SeqsFromTo(Names, 1, IF MaxDepth > 3 THEN 3 ELSE MaxDepth)
        vend  == {d \in {h \o <<"vendor">> \o P : h \in {SubSeq(b, 1, IF n < Len(b) THEN n ELSE Len(b)) : b \in T, n \in 0..MaxDepth},
                                                    P \in {PathOf(e) : e \in T} \cup SeqsFromTo(Names, 1, 2)} :
                     Len(d) <= MaxDepth}
    IN {plain, PkgDirs(MaxDepth)} \cup (IF vend = {} THEN {} ELSE {vend})
MainCands(T) ==
    LET cut(d, n) == SubSeq(d, 1, IF n < Len(d) THEN n ELSE Len(d))
        near == {cut(d, n) : d \in T, n \in 0..MaxMainDepth} \cup
                {cut(d, n) \o <<x>> : d \in T, n \in 0..(MaxMainDepth - 1), x \in Names}
    IN {d \in near : d \notin T /\ Len(d) >= 1 /\ Len(d) <= MaxMainDepth /\ \A i \in 1..Len(d) : d[i] # "vendor"}
       \cup MainDirs(T)

InitSim == StartLoad({<<"a">>}, "string", Root)
Done == status \in {"ok", "cycle", "notfound"}
Restart ==
    /\ Done
    /\ tree' = {} /\ grow' = RandomElement(2..MaxPkgs) /\ status' = "tree"
    /\ sit' = "string" /\ mdir' = Root /\ code' = <<>> /\ stack' = <<>> /\ log' = <<>> /\ res' = <<>> /\ pin' = 0
Grow ==
    /\ status = "tree" /\ grow > 0
    /\ tree' = tree \cup {RandomElement(RandomElement(Pools(tree)))}
    /\ grow' = grow - 1
    /\ UNCHANGED <<sit, mdir, code, stack, log, res, status, pin>>
Place ==
    /\ status = "tree" /\ grow = 0
    /\ sit' = IF MainCands(tree) = {} THEN "string" ELSE RandomElement(MainKinds)
    /\ mdir' = IF sit' = "file" THEN RandomElement(MainCands(tree)) ELSE Root
    /\ stack' = <<[who |-> MainId, done |-> {}]>> /\ status' = "load"
    /\ UNCHANGED <<tree, code, log, res, pin, grow>>
NextSim == Synth(TRUE, TRUE) \/ Step \/ Finish \/ Restart \/ Grow \/ Place
SpecSim == InitSim /\ [][NextSim]_vars

-------------------------------------------------------------------------------
(* What TLC checks on the model itself.                                        *)

\* the resolved import graph over the files entered so far
EdgesFrom(w) == {Target(tree, DirOf(w), Imps(w)[i]) : i \in 1..Len(Imps(w))}
RECURSIVE Closure(_)
Closure(S) ==
    LET S2 == S \cup UNION {EdgesFrom(w) \ {NotFound} : w \in {x \in S : HasCode(x)}}
    IN IF S2 = S THEN S ELSE Closure(S2)
Reachable == Closure({MainId}) \ {MainId}
HasMissing == \E w \in Closure({MainId}) : HasCode(w) /\ NotFound \in EdgesFrom(w)
\* a file from which a chain of imports leads back to itself
RECURSIVE ClosureFrom(_, _)
ClosureFrom(S, seen) ==
    LET nxt == UNION {EdgesFrom(w) \ {NotFound} : w \in {x \in S : HasCode(x)}}
    IN IF nxt \subseteq seen THEN seen ELSE ClosureFrom(nxt \ seen, seen \cup nxt)
HasCycle == \E w \in Reachable : w \in ClosureFrom({w}, {})
\* the error classes a correct loader may report for the program (it may stop at the first)
Allowed == (IF HasCycle THEN {"cycle"} ELSE {}) \cup (IF HasMissing THEN {"notfound"} ELSE {})

Pos(d) == CHOOSE i \in 1..Len(log) : log[i] = d

\* every answer of the operational resolver is THE nearest visible copy, and NotFound
\* is answered only when no copy is visible
NearestVendorWins ==
    \A i \in 1..Len(res) : res[i].imp.k = "abs" =>
        LET I == DirOf(res[i].from) P == res[i].imp.p IN
        {d \in tree : Nearest(tree, d, I, P)} = (IF res[i].to = NotFound THEN {} ELSE {res[i].to})
\* a relative import leads to the importing file's directory joined with the path
RelativeJoins ==
    \A i \in 1..Len(res) : (res[i].imp.k # "abs" /\ res[i].to # NotFound) =>
        LET I == DirOf(res[i].from) IN
        res[i].to = (IF res[i].imp.k = "dot" THEN I ELSE Front(I)) \o res[i].imp.p
\* the same statement in the same directory always gets the same answer (no history dependence)
Deterministic ==
    \A i, j \in 1..Len(res) :
        (DirOf(res[i].from) = DirOf(res[j].from) /\ res[i].imp = res[j].imp) => res[i].to = res[j].to
\* each package is initialised at most once, whatever the number of importers ...
Once == \A i, j \in 1..Len(log) : i # j => log[i] # log[j]
\* ... and, when the load succeeds, exactly the packages reachable from main are, once each,
\* every one after the packages it imports
OnceOnDiamonds ==
    status = "ok" =>
        /\ Rng(log) = Reachable
        /\ \A w \in Rng(log) : \A t \in EdgesFrom(w) : Pos(t) < Pos(w)
\* a load never nests a package inside itself, and its outcome is right
CyclesReported ==
    /\ \A i, j \in 1..Len(stack) : i # j => stack[i].who # stack[j].who
    /\ Len(stack) <= Cardinality(tree) + 1
    /\ (status = "ok") = (Done /\ Allowed = {})
    /\ (status \in {"cycle", "notfound"}) => status \in Allowed
\* there are diamonds among the generated programs: witnessed by coverage of this predicate
Diamond == status = "ok" /\ \E i, j \in 1..Len(res) : i # j /\ res[i].to = res[j].to /\ res[i].from # res[j].from

\* every pinned witness contains the trigger of its own finding and no other
PinTriggers ==
    (pin # 0 /\ Done) => UNION {TrigSet(res[i].from, res[i].imp) : i \in 1..Len(res)} = {pin}

TypeOK ==
    /\ status \in {"tree", "load", "ok", "cycle", "notfound"}
    /\ NImports <= MaxImports
    /\ Rng(log) \subseteq tree

-------------------------------------------------------------------------------
(* Behaviours are handed to the harness from an always-true invariant.          *)
CaseRec ==
    [pin |-> pin, tree |-> tree, sit |-> sit, mdir |-> mdir, code |-> code, res |-> res, log |-> log,
     status |-> status, allowed |-> Allowed, diamond |-> Diamond,
     trig |-> [i \in 1..Len(res) |-> TrigSet(res[i].from, res[i].imp)]]
Emit == Done => PrintT(<<"BEH", ToJson(CaseRec)>>)
===============================================================================
