------------------------------- MODULE Sandbox -------------------------------
(* C13 - restricted mode confines scripts.                                     *)
(*                                                                             *)
(* Four machines, one per clause of the property; each is a generator and the  *)
(* oracle of what the harness must observe on the real interpreter:            *)
(*   (i)   the virtual environment (Options.Env + the seven os functions)       *)
(*   (ii)  the import matrix (package x import form x configuration)           *)
(*   (iii) the process-exit entry points, as panics over a small frame stack   *)
(*   (iv)  the streams and arguments (Options.Stdout/Stderr/Stdin/Args)        *)
(* A specification (SpecEnv.., SpecImports, SpecExit, SpecIO..) drives one     *)
(* machine and keeps the variables of the others at their idle values.         *)
EXTENDS Integers, Sequences, FiniteSets, TLC, Json, Randomization

CONSTANTS
    TablePkgs,     \* import paths of the default symbol table (keys of stdlib.Symbols, read at run time)
    LoggerPaths,   \* selector paths from a value of the table's log.Logger type to a value with Fatal methods:
                   \* "" (the value itself) and one path per exported field or niladic method, found by
                   \* reflection on the table (a wrapper that embeds or exposes the host's logger adds paths)
    \* Conventions the property leaves open.  The harness identifies which member of the
    \* admissible family the implementation follows (one probe each) and every behaviour
    \* must then conform to it.
    DupPolicy,     \* duplicate keys in Options.Env: "last" | "first" entry wins
    BarePolicy,    \* an entry "K" without '=': "empty" (K present, value "") | "ignored"
    BadKeyPolicy,  \* Setenv of an empty key or a key containing '=': "map" (stored) | "reject" (error, no change; what package os does)
    PrintSink,     \* print/println builtins: "optOut" | "optErr" (both are streams of Options)
    \* bounds
    InitMode,      \* "canon" (one Options.Env list per initial map) | "all" (every list of <= MaxEntries entries)
    MaxEntries, MaxDepth,
    EdgeOnly,      \* TRUE: a second operation only after a first one that creates the key "B=C" (edge cover)
    OpSet,         \* names of the environment operations enabled
    SimLen,        \* length of a simulated history
    IoFns          \* stream functions enabled in SpecIO (exhaustive tier)

Range(s) == {s[i] : i \in 1..Len(s)}

\* The variables of the four machines (declared here so that every action can say
\* that it leaves the other machines alone).
VARIABLES entries, imp, env, host, hist,                       \* (i)
          icase, iverdict,                                     \* (ii)
          xc, xstack, xpanic, xout, xstat, xphase, alive,      \* (iii)
          ioargs, sinks, inPos, hostInPos, lineStart, iohist   \* (iv)
envVars  == <<entries, imp, env, host, hist>>
impVars  == <<icase, iverdict>>
exitVars == <<xc, xstack, xpanic, xout, xstat, xphase, alive>>
ioVars   == <<ioargs, sinks, inPos, hostInPos, lineStart, iohist>>
vars     == <<envVars, impVars, exitVars, ioVars>>
OthersThanEnv  == UNCHANGED <<impVars, exitVars, ioVars>>
OthersThanImp  == UNCHANGED <<envVars, exitVars, ioVars>>
OthersThanExit == UNCHANGED <<envVars, impVars, ioVars>>
OthersThanIo   == UNCHANGED <<envVars, impVars, exitVars>>

-------------------------------------------------------------------------------
(* (i) THE VIRTUAL ENVIRONMENT                                                 *)
(*                                                                             *)
(* Three script keys (one empty, one containing '='), three values (empty, one *)
(* containing '=', one containing '$'), plus a key H that exists only in the   *)
(* host.  The host environment holds sentinels under A (collides with a script *)
(* key) and H; nothing the script does may change it or read it.               *)
Keys     == {"", "A", "B=C"}
ReadKeys == Keys \cup {"H"}
Vals     == {"", "v=w", "$A"}
InitKeys == {"", "A"}              \* keys an Options.Env entry can carry ("B=C=x" would parse as key B)
HostInit == [k \in {"A", "H"} |-> IF k = "A" THEN "hostA" ELSE "hostH"]
HostVals == {"hostA", "hostH"}
BadKey(k) == k = "" \/ k = "B=C"

Empty == [x \in {} |-> ""]
Has(m, k)     == k \in DOMAIN m
Get(m, k)     == IF Has(m, k) THEN m[k] ELSE ""
SetM(m, k, v) == [x \in DOMAIN m \cup {k} |-> IF x = k THEN v ELSE m[x]]
DelM(m, k)    == [x \in DOMAIN m \ {k} |-> m[x]]
Pairs(m)      == {<<k, m[k]>> : k \in DOMAIN m}

\* Options.Env entries: "k=v" (eq) or the bare form "k"
Entry(k, v, eq) == [k |-> k, v |-> v, eq |-> eq]
EntryForms == {Entry(k, v, TRUE) : k \in InitKeys, v \in Vals} \cup {Entry(k, "", FALSE) : k \in InitKeys}
Effective(e) == e.eq \/ BarePolicy = "empty"
EntryVal(e)  == IF e.eq THEN e.v ELSE ""

RECURSIVE ParseFrom(_, _)
ParseFrom(es, m) ==
    IF es = <<>> THEN m
    ELSE LET e == Head(es)
             m2 == IF ~Effective(e) THEN m
                   ELSE IF Has(m, e.k) /\ DupPolicy = "first" THEN m
                   ELSE SetM(m, e.k, EntryVal(e))
         IN ParseFrom(Tail(es), m2)
Parse(es) == ParseFrom(es, Empty)

CanonLists == {l1 \o l2 : l1 \in {<<>>} \cup {<<Entry("", v, TRUE)>> : v \in Vals},
                          l2 \in {<<>>} \cup {<<Entry("A", v, TRUE)>> : v \in Vals}}
AllLists   == UNION {[1..n -> EntryForms] : n \in 0..MaxEntries}
InitLists  == IF InitMode = "canon" THEN CanonLists ELSE AllLists

\* ExpandEnv templates: literal segments and references $K / ${K}
Lit(s)    == [kind |-> "lit", lit |-> s, ref |-> ""]
Ref(k, b) == [kind |-> IF b THEN "brace" ELSE "plain", lit |-> "", ref |-> k]
Segments  == {Lit("-"), Lit("/p")} \cup {Ref(k, b) : k \in {"A", "H"}, b \in BOOLEAN} \cup {Ref("B=C", TRUE)}
BfsTemplates == {<<s>> : s \in Segments \ {Lit("/p")}}
                \cup {<<Ref("A", FALSE), Lit("-"), Ref("B=C", TRUE)>>, <<Lit("/p"), Ref("H", TRUE), Ref("A", TRUE)>>}

\* results: one record shape for every operation
Ret(s, ok, pairs, err, pieces) == [s |-> s, ok |-> ok, pairs |-> pairs, err |-> err, pieces |-> pieces]
RStr(s)       == Ret(s, FALSE, {}, "-", <<>>)
RLook(s, ok)  == Ret(s, ok, {}, "-", <<>>)
RPairs(p)     == Ret("", FALSE, p, "-", <<>>)
RErr(e)       == Ret("", FALSE, {}, e, <<>>)
RPieces(p)    == Ret("", FALSE, {}, "-", p)
RNone         == Ret("", FALSE, {}, "-", <<>>)

Req(op, k, v, t) == [op |-> op, k |-> k, v |-> v, t |-> t]

\* what each function does to the map and what it returns
StepSetenv(m, k, v) == IF BadKey(k) /\ BadKeyPolicy = "reject"
                       THEN [env |-> m, ret |-> RErr("error")]
                       ELSE [env |-> SetM(m, k, v), ret |-> RErr("nil")]
StepUnsetenv(m, k)  == [env |-> DelM(m, k), ret |-> RErr("nil")]
StepClearenv(m)     == [env |-> Empty, ret |-> RNone]
StepGetenv(m, k)    == [env |-> m, ret |-> RStr(Get(m, k))]
StepLookupEnv(m, k) == [env |-> m, ret |-> RLook(Get(m, k), Has(m, k))]
StepEnviron(m)      == [env |-> m, ret |-> RPairs(Pairs(m))]
StepExpandEnv(m, t) == [env |-> m, ret |-> RPieces([i \in 1..Len(t) |->
                           IF t[i].kind = "lit" THEN t[i].lit ELSE Get(m, t[i].ref)])]
Step(m, r) ==
    CASE r.op = "Setenv"    -> StepSetenv(m, r.k, r.v)
      [] r.op = "Unsetenv"  -> StepUnsetenv(m, r.k)
      [] r.op = "Clearenv"  -> StepClearenv(m)
      [] r.op = "Getenv"    -> StepGetenv(m, r.k)
      [] r.op = "LookupEnv" -> StepLookupEnv(m, r.k)
      [] r.op = "Environ"   -> StepEnviron(m)
      [] r.op = "ExpandEnv" -> StepExpandEnv(m, r.t)

\* entries: Options.Env of the interpreter of this history; imp: how the script imports
\* os ("plain" | "named" | "dot"); env: the virtual environment; host: the host
\* environment; hist: operations so far, each with the value it returned

EnvIdle == entries = <<>> /\ imp = "plain" /\ env = Empty /\ host = HostInit /\ hist = <<>>

EnvInit == /\ entries \in InitLists
           /\ imp = "plain"
           /\ env = Parse(entries)
           /\ host = HostInit
           /\ hist = <<>>

\* every operation is applied to the virtual map only; the host is never an operand
\* With canonical initial lists every state of the graph is either initial or one
\* Setenv("B=C", v) away from an initial one: under EdgeOnly the histories are exactly
\* <<op>> and <<Setenv("B=C", v), op>>, which cover every edge of the graph.
IsSetup(o) == o.op = "Setenv" /\ o.k = "B=C"
Do(r) == LET s == Step(env, r) IN
         /\ r.op \in OpSet
         /\ Len(hist) < MaxDepth
         /\ (EdgeOnly /\ Len(hist) >= 1) => (Len(hist) = 1 /\ IsSetup(hist[1]))
         /\ env' = s.env
         /\ hist' = Append(hist, [op |-> r.op, k |-> r.k, v |-> r.v, t |-> r.t, ret |-> s.ret])
         /\ host' = host
         /\ UNCHANGED <<entries, imp>>
         /\ OthersThanEnv

Setenv(k, v) == "Setenv" \in OpSet    /\ Do(Req("Setenv", k, v, <<>>))
Unsetenv(k)  == "Unsetenv" \in OpSet  /\ Do(Req("Unsetenv", k, "", <<>>))
Clearenv     == "Clearenv" \in OpSet  /\ Do(Req("Clearenv", "", "", <<>>))
Getenv(k)    == "Getenv" \in OpSet    /\ Do(Req("Getenv", k, "", <<>>))
LookupEnv(k) == "LookupEnv" \in OpSet /\ Do(Req("LookupEnv", k, "", <<>>))
Environ      == "Environ" \in OpSet   /\ Do(Req("Environ", "", "", <<>>))
ExpandEnv(t) == "ExpandEnv" \in OpSet /\ Do(Req("ExpandEnv", "", "", t))

EnvNext == \/ \E k \in Keys, v \in Vals : Setenv(k, v)
           \/ \E k \in ReadKeys : Unsetenv(k)
           \/ Clearenv
           \/ \E k \in ReadKeys : Getenv(k)
           \/ \E k \in ReadKeys : LookupEnv(k)
           \/ Environ
           \/ \E t \in BfsTemplates : ExpandEnv(t)

\* seeded simulation: long histories, random Options.Env (up to 4 entries), random
\* templates of up to 4 segments, random import form.  (Every Rand* operator takes a
\* dummy argument that depends on a variable; see the brief.)
RandEntries(z)  == LET n == RandomElement(0..4) IN [i \in 1..n |-> RandomElement(EntryForms)]
RandTemplate(z) == LET n == RandomElement(1..4) IN [i \in 1..n |-> RandomElement(Segments)]
RandReq(z) ==
    LET d == RandomElement(1..20) IN
    CASE d <= 6  -> Req("Setenv", RandomElement(Keys), RandomElement(Vals), <<>>)
      [] d <= 8  -> Req("Unsetenv", RandomElement(ReadKeys), "", <<>>)
      [] d = 9   -> Req("Clearenv", "", "", <<>>)
      [] d <= 12 -> Req("Getenv", RandomElement(ReadKeys), "", <<>>)
      [] d <= 15 -> Req("LookupEnv", RandomElement(ReadKeys), "", <<>>)
      [] d <= 17 -> Req("Environ", "", "", <<>>)
      [] OTHER   -> Req("ExpandEnv", "", "", RandTemplate(z))
EnvSimInit == EnvIdle
EnvReset   == /\ OthersThanEnv
              /\ entries' = RandEntries(hist)
              /\ imp' = RandomElement({"plain", "named", "dot"})
              /\ env' = Parse(entries')
              /\ hist' = <<>>
              /\ host' = host
EnvSimNext == IF (hist = <<>> /\ entries = <<>> /\ env = Empty) \/ Len(hist) >= SimLen
              THEN EnvReset
              ELSE \E r \in {RandReq(hist)} :
                   LET s == Step(env, r) IN
                   /\ env' = s.env
                   /\ hist' = Append(hist, [op |-> r.op, k |-> r.k, v |-> r.v, t |-> r.t, ret |-> s.ret])
                   /\ host' = host
                   /\ UNCHANGED <<entries, imp>>
                   /\ OthersThanEnv

(* What TLC checks on the environment machine.                                 *)
\* The host environment is never changed ...
HostEnvUnchanged == host = HostInit
HostEnvStep      == [][host' = host]_envVars
\* ... and never read: no returned value is one of the host's
NoHostLeak ==
    \A j \in 1..Len(hist) :
        LET r == hist[j].ret IN
        /\ r.s \notin HostVals
        /\ \A p \in r.pairs : p[2] \notin HostVals /\ p[1] # "H"
        /\ \A i \in 1..Len(r.pieces) : r.pieces[i] \notin HostVals

\* An axiomatic account of the reads, stated on the history alone (it never mentions
\* env): a read returns the last write to its key, or else what Options.Env gave.
EffIdx(k) == {i \in 1..Len(entries) : entries[i].k = k /\ Effective(entries[i])}
Pick(S)   == IF DupPolicy = "last" THEN CHOOSE i \in S : \A j \in S : j <= i
                                   ELSE CHOOSE i \in S : \A j \in S : j >= i
InitialOf(k) == IF EffIdx(k) = {} THEN <<FALSE, "">> ELSE <<TRUE, EntryVal(entries[Pick(EffIdx(k))])>>
WritesKey(o, k) == \/ (o.op = "Setenv" /\ o.k = k /\ o.ret.err = "nil")
                   \/ (o.op = "Unsetenv" /\ o.k = k)
                   \/ o.op = "Clearenv"
RECURSIVE LastWrite(_, _)
LastWrite(i, k) ==      \* <<present, value>> of key k after the first i operations
    IF i = 0 THEN InitialOf(k)
    ELSE IF WritesKey(hist[i], k)
         THEN (IF hist[i].op = "Setenv" THEN <<TRUE, hist[i].v>> ELSE <<FALSE, "">>)
         ELSE LastWrite(i - 1, k)
ReadsAgree ==
    \A j \in 1..Len(hist) :
        LET o == hist[j] IN
        /\ o.op = "Getenv"    => o.ret.s = LastWrite(j - 1, o.k)[2]
        /\ o.op = "LookupEnv" => <<o.ret.ok, o.ret.s>> = LastWrite(j - 1, o.k)
        /\ o.op = "Environ"   => o.ret.pairs = {<<k, LastWrite(j - 1, k)[2]>> : k \in {x \in ReadKeys : LastWrite(j - 1, x)[1]}}
        /\ o.op = "ExpandEnv" => o.ret.pieces = [i \in 1..Len(o.t) |->
                                     IF o.t[i].kind = "lit" THEN o.t[i].lit ELSE LastWrite(j - 1, o.t[i].ref)[2]]
\* the named special cases of it
GetAfterSet ==
    \A j \in 2..Len(hist) :
        (hist[j-1].op = "Setenv" /\ hist[j-1].ret.err = "nil" /\ hist[j].op \in {"Getenv", "LookupEnv"} /\ hist[j].k = hist[j-1].k)
            => hist[j].ret.s = hist[j-1].v /\ (hist[j].op = "LookupEnv" => hist[j].ret.ok)
GoneAfterUnset ==
    \A j \in 2..Len(hist) :
        (hist[j-1].op = "Unsetenv" /\ hist[j].op = "LookupEnv" /\ hist[j].k = hist[j-1].k)
            => ~hist[j].ret.ok /\ hist[j].ret.s = ""
ClearenvEmpties ==
    \A j \in 2..Len(hist) : (hist[j-1].op = "Clearenv" /\ hist[j].op = "Environ") => hist[j].ret.pairs = {}
\* two observers of one state agree: Environ is the graph of LookupEnv, ${K} is Getenv(K)
EnvironIsGraph ==
    StepEnviron(env).ret.pairs = {<<k, StepLookupEnv(env, k).ret.s>> : k \in {x \in ReadKeys : StepLookupEnv(env, x).ret.ok}}
ExpandIsGetenv ==
    \A k \in ReadKeys \ {""} : StepExpandEnv(env, <<Ref(k, TRUE)>>).ret.pieces = <<StepGetenv(env, k).ret.s>>
EnvTypeOK == /\ DOMAIN env \subseteq Keys
             /\ \A k \in DOMAIN env : env[k] \in Vals
             /\ \A j \in 1..Len(hist) : hist[j].op \in OpSet

EnvView == <<env, host>>

EnvRec == [entries |-> entries, imp |-> imp, ops |-> hist, final |-> Pairs(env), host |-> Pairs(host)]
EmitEnv    == (Len(hist) = MaxDepth \/ (EdgeOnly /\ Len(hist) = 1 /\ ~IsSetup(hist[1]))) => PrintT(<<"BEH", ToJson(EnvRec)>>)
EmitEnvSim == (Len(hist) = SimLen)   => PrintT(<<"BEH", ToJson(EnvRec)>>)

-------------------------------------------------------------------------------
(* (ii) THE IMPORT MATRIX                                                      *)
(*                                                                             *)
(* cfg "default": Use(stdlib.Symbols) only.  cfg "extended": the host has also *)
(* called Use with stdlib/unsafe, stdlib/syscall and stdlib/unrestricted; it   *)
(* is the control that shows the rendered imports are able to succeed.         *)
Forbidden == {"unsafe", "syscall", "os/exec"}
Forms     == {"plain", "named", "dot", "blank", "auto"}
Allowed(p, form, cfg) == IF p \in Forbidden THEN cfg = "extended" ELSE p \in TablePkgs

ImpIdle == icase = [pkg |-> "", form |-> "plain", cfg |-> "default"] /\ iverdict = "-"
ImpInit == /\ icase \in {[pkg |-> p, form |-> f, cfg |-> "default"] : p \in TablePkgs \cup Forbidden, f \in Forms}
                       \cup {[pkg |-> p, form |-> f, cfg |-> "extended"] : p \in Forbidden, f \in Forms}
           /\ iverdict = "?"
ImpDecide == /\ iverdict = "?"
             /\ iverdict' = (IF Allowed(icase.pkg, icase.form, icase.cfg) THEN "yes" ELSE "no")
             /\ UNCHANGED icase
             /\ OthersThanImp

ForbiddenDenied == (iverdict # "?" /\ icase.cfg = "default" /\ icase.pkg \in Forbidden) => iverdict = "no"
TableImports    == (iverdict # "?" /\ icase.pkg \in TablePkgs \ Forbidden) => iverdict = "yes"
FormIrrelevant  == \A f \in Forms : Allowed(icase.pkg, f, icase.cfg) = Allowed(icase.pkg, icase.form, icase.cfg)
EmitImp == iverdict \in {"yes", "no"} => PrintT(<<"BEH", ToJson([c |-> icase, ok |-> iverdict])>>)

-------------------------------------------------------------------------------
(* (iii) PROCESS-EXIT ENTRY POINTS                                             *)
(*                                                                             *)
(* run() calls f1, which calls f2 ... down to depth; the deepest body makes    *)
(* the exit call.  Every frame has a deferred function that prints d<l> and,   *)
(* at level recAt, calls recover.  via: the call is written directly, made     *)
(* through a function value, or deferred (defer os.Exit(3), in a frame of its  *)
(* own below the deepest body).  The exit call raises a panic: the host stays  *)
(* alive whatever the script does with it.                                     *)
XEntries == {"os.Exit", "log.Fatal", "log.Fatalf", "log.Fatalln", "logger.Fatal", "logger.Fatalf", "logger.Fatalln"}
IsLoggerEntry(e) == e \in {"logger.Fatal", "logger.Fatalf", "logger.Fatalln"}
\* where a logger value comes from: log.New, log.Default(), slog.NewLogLogger, a variable of type
\* log.Logger (zero value), new(log.Logger)
XSources == {"New", "Default", "SlogBridge", "ZeroVar", "NewBuiltin"}
XVias    == {"direct", "value", "defer"}
XCases   == {c \in [entry : XEntries, src : XSources \cup {"-"}, path : LoggerPaths \cup {""}, via : XVias, depth : 1..2, recAt : 0..2] :
                /\ (IsLoggerEntry(c.entry) <=> c.src # "-")
                /\ (~IsLoggerEntry(c.entry) => c.path = "")
                /\ c.recAt <= c.depth}
Mk(kind, l) == IF l = 1 THEN kind \o "1" ELSE kind \o "2"

IdleCase == [entry |-> "os.Exit", src |-> "-", path |-> "", via |-> "direct", depth |-> 1, recAt |-> 0]
ExitIdle == xc = IdleCase /\ xstack = <<>> /\ xpanic = FALSE /\ xout = <<>> /\ xstat = "-" /\ xphase = "idle" /\ alive = TRUE
ExitInit == xc \in XCases /\ xstack = <<>> /\ xpanic = FALSE /\ xout = <<>> /\ xstat = "run" /\ xphase = "enter" /\ alive = TRUE

Top       == xstack[Len(xstack)]
SetTop(f) == [xstack EXCEPT ![Len(xstack)] = f]

XEnter == /\ xphase = "enter" /\ Len(xstack) < xc.depth
          /\ LET l == Len(xstack) + 1 IN
             /\ xstack' = Append(xstack, [lvl |-> l, dm |-> TRUE, dx |-> FALSE])
             /\ xout' = Append(xout, Mk("in", l))
             /\ xphase' = IF l = xc.depth THEN "exit" ELSE "enter"
          /\ UNCHANGED <<xc, xpanic, xstat, alive>> /\ OthersThanExit
\* THE statement of the clause: the call panics; it neither returns nor ends the process
XExitCall == /\ xphase = "exit" /\ xc.via # "defer"
             /\ xpanic' = TRUE
             /\ alive' = alive
             /\ xphase' = "defers"
             /\ UNCHANGED <<xc, xstack, xout, xstat>> /\ OthersThanExit
\* defer form: the deepest body calls fx, whose only deferred call is the exit call
\* (func fx() { defer os.Exit(3); println("fxbody") }); the panic is raised when fx returns
XDeferExit == /\ xphase = "exit" /\ xc.via = "defer"
              /\ xstack' = Append(xstack, [lvl |-> xc.depth + 1, dm |-> FALSE, dx |-> TRUE])
              /\ xout' = Append(xout, "fxbody")
              /\ xphase' = "defers"
              /\ UNCHANGED <<xc, xpanic, xstat, alive>> /\ OthersThanExit
XRunExitDefer == /\ xphase = "defers" /\ xstack # <<>> /\ Top.dx
                 /\ xstack' = SetTop([Top EXCEPT !.dx = FALSE])
                 /\ xpanic' = TRUE
                 /\ alive' = alive
                 /\ UNCHANGED <<xc, xout, xstat, xphase>> /\ OthersThanExit
XRunMarkerDefer == /\ xphase = "defers" /\ xstack # <<>> /\ ~Top.dx /\ Top.dm
                   /\ xstack' = SetTop([Top EXCEPT !.dm = FALSE])
                   /\ xout' = xout \o <<Mk("d", Top.lvl)>>
                                   \o (IF xc.recAt = Top.lvl THEN <<Mk(IF xpanic THEN "rec" ELSE "norec", Top.lvl)>> ELSE <<>>)
                   /\ xpanic' = IF xc.recAt = Top.lvl THEN FALSE ELSE xpanic
                   /\ UNCHANGED <<xc, xstat, xphase, alive>> /\ OthersThanExit
XPop == /\ xphase = "defers" /\ xstack # <<>> /\ ~Top.dx /\ ~Top.dm
        /\ xstack' = SubSeq(xstack, 1, Len(xstack) - 1)
        /\ IF Len(xstack) = 1
           THEN /\ xphase' = "post"
                /\ IF xpanic THEN xstat' = "error" /\ xout' = xout          \* Eval returns the panic as an error
                             ELSE xstat' = "ok" /\ xout' = Append(xout, "end")
           ELSE /\ xphase' = "defers"
                /\ xstat' = xstat
                /\ xout' = IF xpanic THEN xout ELSE Append(xout, Mk("after", Top.lvl - 1))
        /\ UNCHANGED <<xc, xpanic, alive>> /\ OthersThanExit
\* the next Eval on the same interpreter, in the same (living) process
XPost == /\ xphase = "post" /\ alive
         /\ xout' = Append(xout, "probe")
         /\ xphase' = "done"
         /\ UNCHANGED <<xc, xstack, xpanic, xstat, alive>> /\ OthersThanExit
ExitNext == XEnter \/ XExitCall \/ XDeferExit \/ XRunExitDefer \/ XRunMarkerDefer \/ XPop \/ XPost

HostAlive     == alive
XAfterSkipped == Mk("after", xc.depth) \notin Range(xout)
XDefersRun    == xphase = "done" => \A l \in 1..xc.depth : Mk("d", l) \in Range(xout)
XRecoveredIff == xphase = "done" => ((xstat = "ok") <=> (xc.recAt # 0))
XUsable       == xphase = "done" => xout[Len(xout)] = "probe"
XNoNorec      == \A l \in 1..2 : Mk("norec", l) \notin Range(xout)
EmitExit == xphase = "done" => PrintT(<<"BEH", ToJson([c |-> xc, out |-> xout, stat |-> xstat])>>)

-------------------------------------------------------------------------------
(* (iv) STREAMS AND ARGUMENTS                                                  *)
(*                                                                             *)
(* Four sinks (Options.Stdout, Options.Stderr, the host's stdout and stderr),  *)
(* two sources (Options.Stdin, the host's stdin), Options.Args.  A write puts  *)
(* a unique token on the sink the function is bound to; a read consumes the    *)
(* next token (one per line) of Options.Stdin.                                 *)
FmtWriters == {"fmt.Print", "fmt.Printf", "fmt.Println"}
Builtins   == {"print", "println"}
LogWriters == {"log.Print", "log.Printf", "log.Println", "log.Output", "log.Writer",
               "log.Panic", "log.Panicf", "log.Panicln", "log.Fatal", "log.Fatalf", "log.Fatalln"}
\* the same through the logger that log.Default() returns
DefaultLogWriters == {"log.Default.Print", "log.Default.Printf", "log.Default.Println"}
WriteFns == FmtWriters \cup Builtins \cup LogWriters \cup DefaultLogWriters
ReadFns  == {"fmt.Scan", "fmt.Scanln", "fmt.Scanf"}
\* os.Args; the package-level flag functions (flag.String + flag.Parse + flag.Args);
\* the same through the flag.CommandLine variable
ArgFns   == {"os.Args", "flag.pkg", "flag.CommandLine"}
AllIoFns == WriteFns \cup ReadFns \cup ArgFns
\* Random tier: constructs of the listed findings are left out (pinned in the exhaustive tier)
Excluded_F_C13_2 == DefaultLogWriters        \* log.Default() is the host's logger
Excluded_F_C13_3 == {"flag.pkg"}             \* flag.Parse() reads the host's command line
\* (F-C13-2 and F-C13-3 are repaired in /repo (f0fd1d9, 7056755): the simulation draws from every function again)
SimIoFns == AllIoFns

Sink(fn) == IF fn \in FmtWriters THEN "optOut" ELSE IF fn \in Builtins THEN PrintSink ELSE "optErr"
ASSUME SinkIsOption == \A fn \in WriteFns : Sink(fn) \in {"optOut", "optErr"}

NIn == 3                                     \* tokens on Options.Stdin: i1 \n i2 \n i3 \n
\* Options.Args = prog -name optval rest | prog rest | prog | an EMPTY list that the embedder gave (not nil):
\* the script's command line is what Options.Args says, also when it says "nothing"
ArgShapes == {"flag", "noflag", "bare", "empty"}
ArgList(a) == CASE a = "flag" -> <<"prog", "-name", "optval", "rest">> [] a = "noflag" -> <<"prog", "rest">>
                [] a = "bare" -> <<"prog">> [] OTHER -> <<>>
FlagVal(a) == IF a = "flag" THEN "optval" ELSE "def"
FlagRest(a) == IF a \in {"flag", "noflag"} THEN <<"rest">> ELSE <<>>

NoSinks == [optOut |-> <<>>, optErr |-> <<>>, hostOut |-> <<>>, hostErr |-> <<>>]
IoIdle == ioargs = "flag" /\ sinks = NoSinks /\ inPos = 0 /\ hostInPos = 0 /\ lineStart = TRUE /\ iohist = <<>>
IoInit == ioargs \in ArgShapes /\ sinks = NoSinks /\ inPos = 0 /\ hostInPos = 0 /\ lineStart = TRUE /\ iohist = <<>>

IoRet(n, list, val) == [n |-> n, list |-> list, val |-> val]
IoRec(fn, ret) == [fn |-> fn, tok |-> Len(iohist) + 1, ret |-> ret]

\* a printing function writes its token to the Options stream it is bound to
Write(fn) == /\ fn \in WriteFns
             /\ sinks' = [sinks EXCEPT ![Sink(fn)] = Append(@, Len(iohist) + 1)]
             /\ iohist' = Append(iohist, IoRec(fn, IoRet(0, <<>>, "")))
             /\ UNCHANGED <<ioargs, inPos, hostInPos, lineStart>>
\* a scanning function takes the next token of Options.Stdin (n = 0 at end of input).
\* Scan leaves the newline behind; Scanln and Scanf("%s\n") are only used at the
\* start of a line and consume it (what fmt does elsewhere is not this property's).
Read(fn) == /\ fn \in ReadFns
            /\ (fn # "fmt.Scan" => lineStart)
            /\ IF inPos < NIn
               THEN /\ inPos' = inPos + 1
                    /\ iohist' = Append(iohist, IoRec(fn, IoRet(inPos + 1, <<>>, "")))
                    /\ lineStart' = (fn # "fmt.Scan")
               ELSE /\ inPos' = inPos
                    /\ iohist' = Append(iohist, IoRec(fn, IoRet(0, <<>>, "")))
                    /\ lineStart' = lineStart
            /\ hostInPos' = hostInPos
            /\ UNCHANGED <<ioargs, sinks>>
\* os.Args is Options.Args; the flag package parses Options.Args[1:]
\* (a flag can be defined once per flag set, and the package-level functions and
\* flag.CommandLine are one flag set: one flag operation per history)
FlagFns == {"flag.pkg", "flag.CommandLine"}
ReadArgs(fn) == /\ fn \in ArgFns
                /\ (fn \in FlagFns => \A i \in 1..Len(iohist) : iohist[i].fn \notin FlagFns)
                \* flag.Parse() is CommandLine.Parse(os.Args[1:]): with an empty command line it faults, in compiled Go too
                /\ (fn \in FlagFns => ioargs # "empty")
                /\ iohist' = Append(iohist, IoRec(fn,
                       IF fn = "os.Args" THEN IoRet(0, ArgList(ioargs), "")
                       ELSE IoRet(0, FlagRest(ioargs), FlagVal(ioargs))))
                /\ UNCHANGED <<ioargs, sinks, inPos, hostInPos, lineStart>>
IoWrite(fn) == Len(iohist) < MaxDepth /\ Write(fn) /\ OthersThanIo
IoRead(fn)  == Len(iohist) < MaxDepth /\ Read(fn) /\ OthersThanIo
IoArgs(fn)  == Len(iohist) < MaxDepth /\ ReadArgs(fn) /\ OthersThanIo
IoNext == \E fn \in IoFns : IoWrite(fn) \/ IoRead(fn) \/ IoArgs(fn)
IoStep(fn) == (Write(fn) \/ Read(fn) \/ ReadArgs(fn)) /\ OthersThanIo

IoSimInit == IoIdle
IoReset == /\ OthersThanIo
           /\ ioargs' = RandomElement(ArgShapes) /\ sinks' = NoSinks /\ inPos' = 0 /\ hostInPos' = 0
           /\ lineStart' = TRUE /\ iohist' = <<>>
IoEnabled(fn) == /\ (fn \in ReadFns \ {"fmt.Scan"} => lineStart)
                 /\ (fn \in FlagFns => \A i \in 1..Len(iohist) : iohist[i].fn \notin FlagFns)
IoSimNext == IF Len(iohist) >= SimLen
             THEN IoReset
             ELSE \E fn \in {RandomElement({f \in SimIoFns : IoEnabled(f)})} : IoStep(fn)

HostStreamsUntouched == sinks.hostOut = <<>> /\ sinks.hostErr = <<>> /\ hostInPos = 0
\* every written token is on exactly one Options stream, in program order
WritesConserved ==
    /\ \A i \in 1..Len(iohist) : iohist[i].fn \in WriteFns =>
          Cardinality({s \in {"optOut", "optErr"} : i \in Range(sinks[s])}) = 1
    /\ \A s \in {"optOut", "optErr"} : \A a, b \in 1..Len(sinks[s]) : a < b => sinks[s][a] < sinks[s][b]
\* successive reads return successive tokens of Options.Stdin, none lost, none repeated
ReadsInOrder ==
    LET rd == SelectSeq(iohist, LAMBDA o : o.fn \in ReadFns /\ o.ret.n > 0) IN
    /\ \A i \in 1..Len(rd) : rd[i].ret.n = i
    /\ Len(rd) = inPos
ArgsFromOptions ==
    \A i \in 1..Len(iohist) :
        /\ iohist[i].fn = "os.Args" => iohist[i].ret.list = ArgList(ioargs)
        /\ iohist[i].fn \in {"flag.pkg", "flag.CommandLine"} => iohist[i].ret.val \in {"optval", "def"}
IoRecOut == [args |-> ioargs, ops |-> iohist, sinks |-> sinks]
EmitIo    == (Len(iohist) = MaxDepth) => PrintT(<<"BEH", ToJson(IoRecOut)>>)
EmitIoSim == (Len(iohist) = SimLen)   => PrintT(<<"BEH", ToJson(IoRecOut)>>)

-------------------------------------------------------------------------------
SpecEnv     == EnvInit /\ ImpIdle /\ ExitIdle /\ IoIdle /\ [][EnvNext]_vars
SpecEnvSim  == EnvSimInit /\ ImpIdle /\ ExitIdle /\ IoIdle /\ [][EnvSimNext]_vars
SpecImports == EnvIdle /\ ImpInit /\ ExitIdle /\ IoIdle /\ [][ImpDecide]_vars
SpecExit    == EnvIdle /\ ImpIdle /\ ExitInit /\ IoIdle /\ [][ExitNext]_vars
SpecIO      == EnvIdle /\ ImpIdle /\ ExitIdle /\ IoInit /\ [][IoNext]_vars
SpecIOSim   == EnvIdle /\ ImpIdle /\ ExitIdle /\ IoSimInit /\ [][IoSimNext]_vars
===============================================================================
