-------------------------------- MODULE BV --------------------------------
(* C02 - fixed-width integer arithmetic, strings and booleans as Go defines  *)
(* them.                                                                     *)
(*                                                                           *)
(* TLC integers are 32-bit, so a 64-bit pattern is a tuple of 5 little-      *)
(* endian limbs of 15 bits (limb 5 holds bits 60..63); every intermediate    *)
(* product stays below 2^30.  A value of kind k = [w, signed] is kept in     *)
(* CANONICAL form: the 64-bit pattern of the value sign- or zero-extended    *)
(* from w bits.  Every operator of kind k is "compute modulo 2^64 on the     *)
(* canonical operands, keep the low w bits, re-extend", which is the wrap-   *)
(* around arithmetic of the Go specification (2^w divides 2^64).             *)
(*                                                                           *)
(* The module is used as an ORACLE TABLE: TLC evaluates every operator on    *)
(* the boundary-value set of every kind once, checks algebraic identities on *)
(* the same values (a wrong carry or borrow breaks one of them), and emits   *)
(* the table; the harness expands operand forms and result contexts, which   *)
(* do not change the value Go prescribes.                                    *)
EXTENDS Integers, Sequences, FiniteSets, TLC, Json, Bitwise

CONSTANTS Fams,       \* operator families evaluated by this run
          Full,       \* TRUE: the complete boundary set; FALSE: reduced set + SampleIdx
          SampleIdx   \* indices into BSeq added to the reduced set (seeded by the harness)

B    == 32768
P2   == <<1,2,4,8,16,32,64,128,256,512,1024,2048,4096,8192,16384,32768>>
Two(i) == P2[i + 1]                       \* 2^i for i in 0..15

Zero  == <<0,0,0,0,0>>
One   == <<1,0,0,0,0>>
Ones  == <<B-1,B-1,B-1,B-1,15>>           \* 2^64 - 1
Panic == <<-1,0,0,0,0>>                   \* run-time panic marker (not a value)

FromNat(n) == <<n,0,0,0,0>>               \* 0 <= n < 2^15
TwoTo(n)   ==                             \* 2^n, 0 <= n <= 63
    LET i == n \div 15 + 1   v == Two(n % 15)
    IN <<IF i=1 THEN v ELSE 0, IF i=2 THEN v ELSE 0, IF i=3 THEN v ELSE 0,
         IF i=4 THEN v ELSE 0, IF i=5 THEN v ELSE 0>>

-----------------------------------------------------------------------------
(* 64-bit primitives                                                          *)
Add(x, y) ==
    LET s1 == x[1] + y[1]
        s2 == x[2] + y[2] + s1 \div B
        s3 == x[3] + y[3] + s2 \div B
        s4 == x[4] + y[4] + s3 \div B
        s5 == x[5] + y[5] + s4 \div B
    IN <<s1 % B, s2 % B, s3 % B, s4 % B, s5 % 16>>

\* subtraction with borrows (deliberately not defined through Add/Neg: the
\* identity Sub(a,b) = Add(a, Neg(b)) is checked by TLC)
Sub(x, y) ==
    LET d1 == x[1] - y[1]              b1 == IF d1 < 0 THEN 1 ELSE 0
        d2 == x[2] - y[2] - b1         b2 == IF d2 < 0 THEN 1 ELSE 0
        d3 == x[3] - y[3] - b2         b3 == IF d3 < 0 THEN 1 ELSE 0
        d4 == x[4] - y[4] - b3         b4 == IF d4 < 0 THEN 1 ELSE 0
        d5 == x[5] - y[5] - b4
    IN <<d1 + b1*B, d2 + b2*B, d3 + b3*B, d4 + b4*B, d5 % 16>>

Not64(x) == <<B-1-x[1], B-1-x[2], B-1-x[3], B-1-x[4], 15-x[5]>>
Neg64(x) == Add(Not64(x), One)
And64(x, y) == <<x[1] & y[1], x[2] & y[2], x[3] & y[3], x[4] & y[4], x[5] & y[5]>>
Or64(x, y)  == <<x[1] | y[1], x[2] | y[2], x[3] | y[3], x[4] | y[4], x[5] | y[5]>>
Xor64(x, y) == <<x[1] ^^ y[1], x[2] ^^ y[2], x[3] ^^ y[3], x[4] ^^ y[4], x[5] ^^ y[5]>>

\* x * m for one limb m, low 5 limbs
MulLimb(x, m) ==
    LET p1 == x[1]*m
        p2 == x[2]*m + p1 \div B
        p3 == x[3]*m + p2 \div B
        p4 == x[4]*m + p3 \div B
        p5 == x[5]*m + p4 \div B
    IN <<p1 % B, p2 % B, p3 % B, p4 % B, p5 % B>>
LimbShl(x, n) ==
    CASE n = 0 -> x
      [] n = 1 -> <<0, x[1], x[2], x[3], x[4]>>
      [] n = 2 -> <<0, 0, x[1], x[2], x[3]>>
      [] n = 3 -> <<0, 0, 0, x[1], x[2]>>
      [] n = 4 -> <<0, 0, 0, 0, x[1]>>
\* schoolbook multiplication modulo 2^64
Mul64(x, y) ==
    Add(Add(Add(Add(LimbShl(MulLimb(x, y[1]), 0), LimbShl(MulLimb(x, y[2]), 1)),
                LimbShl(MulLimb(x, y[3]), 2)), LimbShl(MulLimb(x, y[4]), 3)),
        LimbShl(MulLimb(x, y[5]), 4))

Ltu(x, y) ==
    IF x[5] # y[5] THEN x[5] < y[5] ELSE
    IF x[4] # y[4] THEN x[4] < y[4] ELSE
    IF x[3] # y[3] THEN x[3] < y[3] ELSE
    IF x[2] # y[2] THEN x[2] < y[2] ELSE x[1] < y[1]
Sign64(x) == x[5] \div 8
Lts(x, y) == IF Sign64(x) # Sign64(y) THEN Sign64(x) = 1 ELSE Ltu(x, y)

\* logical shift right by 0 <= n <= 63
LShr64(x, n) ==
    LET ls == n \div 15   bs == n % 15
        G(i) == IF i <= 5 THEN x[i] ELSE 0
        R(i) == (G(i + ls) \div Two(bs)) + (G(i + ls + 1) % Two(bs)) * Two(15 - bs)
    IN <<R(1), R(2), R(3), R(4), R(5)>>

\* binary long division of magnitudes below 2^w: returns <<quotient, remainder>>
Bit(x, i) == (x[i \div 15 + 1] \div Two(i % 15)) % 2
SetBit(x, i) == [x EXCEPT ![i \div 15 + 1] = @ + Two(i % 15)]
Shl1Or(r, bit) ==                      \* limb 5 is left unmasked: 2r+bit may need bit 64
    LET t1 == r[1]*2 + bit
        t2 == r[2]*2 + t1 \div B
        t3 == r[3]*2 + t2 \div B
        t4 == r[4]*2 + t3 \div B
        t5 == r[5]*2 + t4 \div B
    IN <<t1 % B, t2 % B, t3 % B, t4 % B, t5>>
SubRaw(x, y) ==                        \* x >= y, limb 5 unmasked
    LET d1 == x[1] - y[1]              b1 == IF d1 < 0 THEN 1 ELSE 0
        d2 == x[2] - y[2] - b1         b2 == IF d2 < 0 THEN 1 ELSE 0
        d3 == x[3] - y[3] - b2         b3 == IF d3 < 0 THEN 1 ELSE 0
        d4 == x[4] - y[4] - b3         b4 == IF d4 < 0 THEN 1 ELSE 0
    IN <<d1 + b1*B, d2 + b2*B, d3 + b3*B, d4 + b4*B, x[5] - y[5] - b4>>
RECURSIVE DivStep(_, _, _, _, _)
DivStep(n, d, i, q, r) ==
    IF i < 0 THEN <<q, r>>
    ELSE LET r2 == Shl1Or(r, Bit(n, i))
         IN IF Ltu(r2, d) THEN DivStep(n, d, i - 1, q, r2)
            ELSE DivStep(n, d, i - 1, SetBit(q, i), SubRaw(r2, d))
UDivMod(n, d, w) == DivStep(n, d, w - 1, Zero, Zero)

-----------------------------------------------------------------------------
(* Kinds                                                                      *)
K(w, s) == [w |-> w, signed |-> s]
Kinds   == {K(w, s) : w \in {8, 16, 32, 64}, s \in BOOLEAN}

LowMask(w) == CASE w = 8  -> <<255,0,0,0,0>>
                [] w = 16 -> <<B-1,1,0,0,0>>
                [] w = 32 -> <<B-1,B-1,3,0,0>>
                [] w = 64 -> Ones
Trunc(w, x) == And64(x, LowMask(w))
SignBit(w, x) == CASE w = 8  -> (x[1] \div 128) % 2
                   [] w = 16 -> x[2] % 2
                   [] w = 32 -> (x[3] \div 2) % 2
                   [] w = 64 -> (x[5] \div 8) % 2
Ext(k, x) == LET t == Trunc(k.w, x)
             IN IF k.signed /\ SignBit(k.w, t) = 1 THEN Or64(t, Not64(LowMask(k.w))) ELSE t
Canon(k, x) == Ext(k, x) = x
MinOf(k) == IF k.signed THEN Ext(k, TwoTo(k.w - 1)) ELSE Zero
MaxOf(k) == IF k.signed THEN Sub(TwoTo(k.w - 1), One) ELSE LowMask(k.w)
IsNeg(k, x) == k.signed /\ Sign64(x) = 1
Mag(k, x)   == IF IsNeg(k, x) THEN Neg64(x) ELSE x       \* |MinInt| = 2^(w-1) fits

-----------------------------------------------------------------------------
(* The operators of kind k on canonical operands                              *)
AddK(k, a, b)    == Ext(k, Add(a, b))
SubK(k, a, b)    == Ext(k, Sub(a, b))
MulK(k, a, b)    == Ext(k, Mul64(a, b))
AndK(k, a, b)    == Ext(k, And64(a, b))
OrK(k, a, b)     == Ext(k, Or64(a, b))
XorK(k, a, b)    == Ext(k, Xor64(a, b))
AndNotK(k, a, b) == Ext(k, And64(a, Not64(b)))
NegK(k, a)       == Ext(k, Neg64(a))
NotK(k, a)       == Ext(k, Not64(a))                      \* ^a
IncK(k, a)       == Ext(k, Add(a, One))
DecK(k, a)       == Ext(k, Sub(a, One))

\* truncated division: quotient toward zero, remainder has the sign of the dividend,
\* MinInt / -1 wraps to MinInt (remainder 0), divisor 0 panics
DivMod(k, a, b) ==
    LET qr == UDivMod(Mag(k, a), Mag(k, b), k.w)
        q  == IF IsNeg(k, a) # IsNeg(k, b) THEN Neg64(qr[1]) ELSE qr[1]
        r  == IF IsNeg(k, a) THEN Neg64(qr[2]) ELSE qr[2]
    IN <<Ext(k, q), Ext(k, r)>>
QuoK(k, a, b) == IF b = Zero THEN Panic ELSE DivMod(k, a, b)[1]
RemK(k, a, b) == IF b = Zero THEN Panic ELSE DivMod(k, a, b)[2]

EqK(k, a, b) == a = b
NeK(k, a, b) == a # b
LtK(k, a, b) == IF k.signed THEN Lts(a, b) ELSE Ltu(a, b)
GtK(k, a, b) == LtK(k, b, a)
LeK(k, a, b) == LtK(k, a, b) \/ a = b
GeK(k, a, b) == LtK(k, b, a) \/ a = b

\* shift count c of kind ck: -1 = negative (panic), 64 = anything >= 64
CountOf(ck, c) ==
    IF IsNeg(ck, c) THEN -1
    ELSE IF c[2] = 0 /\ c[3] = 0 /\ c[4] = 0 /\ c[5] = 0 /\ c[1] < 64 THEN c[1] ELSE 64
ShlN(k, a, n) == IF n >= 64 THEN Zero ELSE Ext(k, Mul64(a, TwoTo(n)))
ShrN(k, a, n) ==
    IF IsNeg(k, a) THEN (IF n >= 64 THEN Ones ELSE Ext(k, Not64(LShr64(Not64(a), n))))
    ELSE (IF n >= 64 THEN Zero ELSE Ext(k, LShr64(a, n)))
ShlK(k, a, ck, c) == LET n == CountOf(ck, c) IN IF n < 0 THEN Panic ELSE ShlN(k, a, n)
ShrK(k, a, ck, c) == LET n == CountOf(ck, c) IN IF n < 0 THEN Panic ELSE ShrN(k, a, n)

Conv(k1, k2, x) == Ext(k2, x)           \* x canonical in k1

-----------------------------------------------------------------------------
(* Boundary values                                                            *)
Nbr(n) == LET p == TwoTo(n) IN
    <<Sub(p, One), p, Add(p, One), Sub(Neg64(p), One), Neg64(p), Add(Neg64(p), One)>>
Mix  == <<22007, 19837, 22118, 26764, 1>>        \* 0x123456789ABCD5F7
BSeq == <<Zero, One, Ones, Mix>> \o Nbr(1) \o Nbr(7) \o Nbr(8) \o Nbr(15) \o Nbr(16)
        \o Nbr(31) \o Nbr(32) \o Nbr(63)
Range(s) == {s[i] : i \in DOMAIN s}
Reduced(k) == {MinOf(k), MaxOf(k), Ext(k, Ones), Zero, One, TwoTo(k.w \div 2)}
Vals(k) == IF Full THEN {Ext(k, x) : x \in Range(BSeq)}
           ELSE Reduced(k) \cup {Ext(k, BSeq[i]) : i \in SampleIdx}

\* shift counts: 0, 1, w-1, w, w+1, 63, 64, 65, 255, 2^32, -1 / MaxUint64, as far as the
\* count kind can hold them
CountCand(k) == {FromNat(n) : n \in {0, 1, k.w - 1, k.w, k.w + 1, 63, 64, 65, 255}}
                \cup {TwoTo(32), Ones}
Counts(k, ck) == {c \in CountCand(k) : Canon(ck, c)}

-----------------------------------------------------------------------------
(* Strings over the alphabet {1,2,3}, rendered a, b, e-acute (U+00E9, two bytes in   *)
(* UTF-8), and booleans.  Comparison is lexicographic on bytes; because UTF-8 is    *)
(* prefix-free and order-preserving this is the letter-wise order below (checked).  *)
Alpha == {1, 2, 3}
Rune(l) == CASE l = 1 -> 97 [] l = 2 -> 98 [] l = 3 -> 233
Strs  == {<<>>} \cup {<<x>> : x \in Alpha} \cup {<<x, y>> : x, y \in Alpha} \cup {<<1, 2, 3>>, <<1, 2, 1>>}
RECURSIVE StrLt(_, _)
StrLt(s, t) ==
    IF t = <<>> THEN FALSE
    ELSE IF s = <<>> THEN TRUE
    ELSE IF s[1] # t[1] THEN s[1] < t[1]
    ELSE StrLt(Tail(s), Tail(t))

\* string(i) for an integer i: the UTF-8 encoding of the code point i, U+FFFD when i is
\* not a valid code point
UTF8(cp) ==
    IF cp < 0 \/ cp > 1114111 \/ (cp >= 55296 /\ cp <= 57343) THEN <<239, 191, 189>>
    ELSE IF cp < 128 THEN <<cp>>
    ELSE IF cp < 2048 THEN <<192 + (cp \div 64), 128 + (cp % 64)>>
    ELSE IF cp < 65536 THEN <<224 + (cp \div 4096), 128 + ((cp \div 64) % 64), 128 + (cp % 64)>>
    ELSE <<240 + (cp \div 262144), 128 + ((cp \div 4096) % 64), 128 + ((cp \div 64) % 64), 128 + (cp % 64)>>
UTF8Dec(b) ==
    CASE Len(b) = 1 -> b[1]
      [] Len(b) = 2 -> (b[1] - 192) * 64 + (b[2] - 128)
      [] Len(b) = 3 -> (b[1] - 224) * 4096 + (b[2] - 128) * 64 + (b[3] - 128)
      [] Len(b) = 4 -> (b[1] - 240) * 262144 + (b[2] - 128) * 4096 + (b[3] - 128) * 64 + (b[4] - 128)
\* the value of a canonical x of kind k as a TLC integer when it is below 2^21, else -1
SmallNat(k, x) == IF IsNeg(k, x) \/ x[3] # 0 \/ x[4] # 0 \/ x[5] # 0 \/ x[2] >= 64 THEN -1 ELSE x[1] + x[2] * B
StrOfInt(k, x) == UTF8(SmallNat(k, x))
FromCp(n) == <<n % B, n \div B, 0, 0, 0>>
CpVals(k) == {v \in {FromCp(n) : n \in {2047, 2048, 55295, 55296, 57343, 57344, 65533, 1114111, 1114112}} : Canon(k, v)}
RECURSIVE Bytes(_)
Bytes(s) == IF s = <<>> THEN <<>> ELSE UTF8(Rune(s[1])) \o Bytes(Tail(s))
Runes(s) == [i \in 1..Len(s) |-> Rune(s[i])]
RECURSIVE SeqLt(_, _)
SeqLt(s, t) == StrLt(s, t)      \* the same lexicographic order, used on byte sequences
Bools == {<<0>>, <<1>>}                     \* kept as sequences so that `a` has one sort
Tr(x) == x = <<1>>

-----------------------------------------------------------------------------
(* Table generation.  lvl 0 -> (fam, kind) -> a -> done; the work is done when *)
(* the done state is generated, so it is spread over the workers.             *)
VARIABLE job
NoKind == K(8, FALSE)
Init == job = [lvl |-> 0, fam |-> "none", k |-> NoKind, a |-> Zero]
IntFams == {"arith", "div", "cmp", "shift", "unary", "conv", "strconv"}
AVals(f, k) == IF f = "str" THEN Strs ELSE IF f = "bool" THEN Bools
               ELSE IF f = "strconv" THEN Vals(k) \cup CpVals(k) ELSE Vals(k)
Next ==
    \/ /\ job.lvl = 0
       /\ \E f \in Fams : \E k \in (IF f \in IntFams THEN Kinds ELSE {NoKind}) :
             job' = [lvl |-> 1, fam |-> f, k |-> k, a |-> Zero]
    \/ /\ job.lvl = 1
       /\ \E a \in AVals(job.fam, job.k) : job' = [job EXCEPT !.lvl = 2, !.a = a]
    \/ /\ job.lvl = 2
       /\ job' = [job EXCEPT !.lvl = 3]
Spec == Init /\ [][Next]_job
Done(f) == job.lvl = 3 /\ job.fam = f

InRed(k, x) == x \in Reduced(k)
Rows(f, k, a) ==
    CASE f = "arith" ->
           {[b |-> b, red |-> InRed(k, a) /\ InRed(k, b), add |-> AddK(k,a,b), sub |-> SubK(k,a,b), mul |-> MulK(k,a,b),
             and |-> AndK(k,a,b), or |-> OrK(k,a,b), xor |-> XorK(k,a,b),
             andnot |-> AndNotK(k,a,b)] : b \in Vals(k)}
      [] f = "div" ->
           {LET qr == IF b = Zero THEN <<Panic, Panic>> ELSE DivMod(k, a, b)
            IN [b |-> b, red |-> InRed(k, a) /\ InRed(k, b), quo |-> qr[1], rem |-> qr[2]] : b \in Vals(k)}
      [] f = "cmp" ->
           {[b |-> b, red |-> InRed(k, a) /\ InRed(k, b), eq |-> EqK(k,a,b), ne |-> NeK(k,a,b), lt |-> LtK(k,a,b),
             le |-> LeK(k,a,b), gt |-> GtK(k,a,b), ge |-> GeK(k,a,b)] : b \in Vals(k)}
      [] f = "shift" ->
           UNION {{[ck |-> ck, c |-> c, red |-> InRed(k, a), shl |-> ShlK(k,a,ck,c), shr |-> ShrK(k,a,ck,c)]
                    : c \in Counts(k, ck)} : ck \in Kinds}
      [] f = "unary" ->
           {[red |-> InRed(k, a), neg |-> NegK(k,a), not |-> NotK(k,a), pos |-> a, inc |-> IncK(k,a), dec |-> DecK(k,a)]}
      [] f = "conv" ->
           {[k2 |-> k2, red |-> InRed(k, a), v |-> Conv(k, k2, a)] : k2 \in Kinds}
      [] f = "strconv" ->
           {[red |-> TRUE, s |-> StrOfInt(k, a)]}
      [] f = "str" ->
           {[b |-> b, bytes |-> Bytes(a), runes |-> Runes(a), add |-> a \o b, eq |-> a = b, ne |-> a # b, lt |-> StrLt(a, b),
             le |-> StrLt(a, b) \/ a = b, gt |-> StrLt(b, a), ge |-> StrLt(b, a) \/ a = b] : b \in Strs}
      [] f = "bool" ->
           {[b |-> b, land |-> Tr(a) /\ Tr(b), lor |-> Tr(a) \/ Tr(b), eq |-> a = b, ne |-> a # b,
             not |-> ~Tr(a)] : b \in Bools}

Emit == job.lvl = 3 =>
          PrintT(<<"BEH", ToJson([fam |-> job.fam, k |-> job.k, a |-> job.a,
                                  rows |-> Rows(job.fam, job.k, job.a)])>>)

-----------------------------------------------------------------------------
(* What TLC checks on the model itself, on exactly the values of the table.   *)
TypeOK ==
    job.lvl = 3 /\ job.fam \in IntFams =>
        /\ Canon(job.k, job.a)
        /\ \A i \in 1..5 : job.a[i] >= 0 /\ job.a[i] < (IF i = 5 THEN 16 ELSE B)

SaneArith == Done("arith") =>
    LET k == job.k  a == job.a IN
    /\ AddK(k, a, NegK(k, a)) = Zero
    /\ MulK(k, a, One) = a /\ MulK(k, a, Zero) = Zero
    /\ MulK(k, a, Ext(k, Ones)) = NegK(k, a)
    /\ \A b \in Vals(k) :
         /\ SubK(k, a, b) = AddK(k, a, NegK(k, b))
         /\ AddK(k, a, b) = AddK(k, b, a)
         /\ SubK(k, AddK(k, a, b), b) = a
         /\ MulK(k, a, b) = MulK(k, b, a)
         /\ MulK(k, a, IncK(k, b)) = AddK(k, MulK(k, a, b), a)        \* distributivity
         /\ NotK(k, AndK(k, a, b)) = OrK(k, NotK(k, a), NotK(k, b))   \* De Morgan
         /\ NotK(k, OrK(k, a, b)) = AndK(k, NotK(k, a), NotK(k, b))
         /\ XorK(k, a, b) = OrK(k, AndNotK(k, a, b), AndNotK(k, b, a))
         /\ AndNotK(k, a, b) = XorK(k, a, AndK(k, a, b))
         /\ AddK(k, a, b) = AddK(k, XorK(k, a, b), MulK(k, AndK(k, a, b), FromNat(2)))
         /\ Canon(k, AddK(k,a,b)) /\ Canon(k, SubK(k,a,b)) /\ Canon(k, MulK(k,a,b))
         /\ Canon(k, AndK(k,a,b)) /\ Canon(k, OrK(k,a,b)) /\ Canon(k, XorK(k,a,b))
         /\ Canon(k, AndNotK(k,a,b))

SaneDiv == Done("div") =>
    LET k == job.k  a == job.a IN
    \A b \in Vals(k) :
       IF b = Zero THEN QuoK(k, a, b) = Panic /\ RemK(k, a, b) = Panic
       ELSE LET qr == DivMod(k, a, b)  q == qr[1]  r == qr[2] IN
            /\ AddK(k, MulK(k, q, b), r) = a                       \* q*b + r = a
            /\ Ltu(Mag(k, r), Mag(k, b))                           \* |r| < |b|
            /\ (r = Zero \/ IsNeg(k, r) = IsNeg(k, a))             \* sign of the dividend
            /\ Canon(k, q) /\ Canon(k, r)
            /\ (b = One => q = a /\ r = Zero)
            /\ (k.signed /\ a = MinOf(k) /\ b = Ext(k, Ones) => q = MinOf(k) /\ r = Zero)

SaneCmp == Done("cmp") =>
    LET k == job.k  a == job.a IN
    /\ LeK(k, MinOf(k), a) /\ LeK(k, a, MaxOf(k))
    /\ (a # MaxOf(k) => LtK(k, a, IncK(k, a)))
    /\ \A b \in Vals(k) :
         /\ LtK(k, a, b) = ~GeK(k, a, b)
         /\ GtK(k, a, b) = ~LeK(k, a, b)
         /\ Cardinality({x \in {"lt", "eq", "gt"} :
                 CASE x = "lt" -> LtK(k, a, b) [] x = "eq" -> EqK(k, a, b) [] x = "gt" -> GtK(k, a, b)}) = 1
         /\ EqK(k, a, b) = ~NeK(k, a, b)
         \* order agrees with subtraction when the difference does not overflow
         /\ (k.signed /\ IsNeg(k, a) = IsNeg(k, b) => (LtK(k, a, b) = IsNeg(k, Ext(k, Sub(a, b)))))

SaneShift == Done("shift") =>
    LET k == job.k  a == job.a  u == K(64, FALSE) IN
    /\ ShlN(k, a, k.w) = Zero
    /\ ShlN(k, a, 0) = a /\ ShrN(k, a, 0) = a
    /\ ShlN(k, a, 1) = AddK(k, a, a)
    /\ ShrN(k, a, k.w) = (IF IsNeg(k, a) THEN Ext(k, Ones) ELSE Zero)
    /\ \A n \in 0..(k.w - 1) :
         /\ ShlN(k, a, n + 1) = ShlN(k, ShlN(k, a, n), 1)
         \* a = (a >> n) << n  +  (a mod 2^n), for logical and arithmetic shifts alike
         /\ AddK(k, ShlN(k, ShrN(k, a, n), n), AndK(k, a, Ext(k, Sub(TwoTo(n), One)))) = a
         /\ Canon(k, ShlN(k, a, n)) /\ Canon(k, ShrN(k, a, n))
    /\ \A ck \in Kinds : \A c \in Counts(k, ck) :
         /\ (IsNeg(ck, c) <=> ShlK(k, a, ck, c) = Panic)
         /\ (IsNeg(ck, c) <=> ShrK(k, a, ck, c) = Panic)

SaneUnary == Done("unary") =>
    LET k == job.k  a == job.a IN
    /\ NegK(k, NegK(k, a)) = a
    /\ NotK(k, NotK(k, a)) = a
    /\ NegK(k, a) = IncK(k, NotK(k, a))
    /\ DecK(k, IncK(k, a)) = a
    /\ (a = MaxOf(k) => IncK(k, a) = MinOf(k))
    /\ (a = MinOf(k) => DecK(k, a) = MaxOf(k))
    /\ (k.signed /\ a = MinOf(k) => NegK(k, a) = a)

SaneConv == Done("conv") =>
    LET k == job.k  a == job.a IN
    /\ Conv(k, k, a) = a
    /\ \A k2 \in Kinds :
         /\ Canon(k2, Conv(k, k2, a))
         /\ Trunc(k2.w, Conv(k, k2, a)) = Trunc(k2.w, a)
         /\ (k2.w >= k.w => Conv(k2, k, Conv(k, k2, a)) = a)
         \* value-preserving whenever the value is representable in the target
         /\ (k2.w > k.w /\ (k2.signed \/ ~k.signed) => Conv(k, k2, a) = a)

SaneStr == Done("str") =>
    \A b \in Strs :
       /\ Cardinality({x \in {"lt", "eq", "gt"} :
               CASE x = "lt" -> StrLt(job.a, b) [] x = "eq" -> job.a = b [] x = "gt" -> StrLt(b, job.a)}) = 1
       /\ Len(job.a \o b) = Len(job.a) + Len(b)
       /\ (b # <<>> => StrLt(job.a, job.a \o b))
       /\ StrLt(job.a, b) = SeqLt(Bytes(job.a), Bytes(b))        \* letter order = byte order
       /\ Bytes(job.a \o b) = Bytes(job.a) \o Bytes(b)

SaneStrConv == Done("strconv") =>
    LET cp == SmallNat(job.k, job.a)  u == StrOfInt(job.k, job.a)
        valid == cp >= 0 /\ cp <= 1114111 /\ ~(cp >= 55296 /\ cp <= 57343) IN
    /\ Len(u) \in 1..4
    /\ \A i \in 1..Len(u) : u[i] \in 0..255 /\ (i > 1 => u[i] \in 128..191)
    /\ (valid => UTF8Dec(u) = cp)
    /\ (~valid => u = <<239, 191, 189>>)
    /\ (Len(u) = 1 <=> u[1] < 128) /\ (Len(u) = 2 => u[1] \in 194..223)
    /\ (Len(u) = 3 => u[1] \in 224..239) /\ (Len(u) = 4 => u[1] \in 240..244)
=============================================================================
