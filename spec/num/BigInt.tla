------------------------------- MODULE BigInt -------------------------------
(* Arbitrary-precision integers for C03 (constant expressions).               *)
(*                                                                             *)
(* TLC integers are 32-bit, so an integer is a sign and a MAGNITUDE: a little- *)
(* endian sequence of limbs in 0..2^15-1 without a most-significant zero limb  *)
(* (zero is <<>>).  Every intermediate product limb*limb+carry+limb is below    *)
(* 2^30.  The operations are those Go's constant arithmetic needs: + - *,      *)
(* truncated division, shifts (>> is an arithmetic shift: floor), comparison,  *)
(* the bitwise operators on the infinite two's-complement reading, bit length, *)
(* truncation to a machine width, and conversion to decimal digits.            *)
EXTENDS Integers, Sequences
LOCAL INSTANCE Bitwise

LB == 15               \* bits per limb
B  == 32768            \* limb base 2^15

-------------------------------------------------------------------------------
(* Magnitudes (natural numbers).                                               *)

RECURSIVE MNorm(_)
MNorm(m) == IF m = <<>> THEN <<>>
            ELSE IF m[Len(m)] = 0 THEN MNorm(SubSeq(m, 1, Len(m) - 1)) ELSE m

Limb(m, i) == IF i >= 1 /\ i <= Len(m) THEN m[i] ELSE 0

RECURSIVE MFromNat(_)
MFromNat(n) == IF n = 0 THEN <<>> ELSE <<n % B>> \o MFromNat(n \div B)

\* value of a magnitude known to be below 2^30 (at most two limbs)
MSmall(m) == Limb(m, 1) + B * Limb(m, 2)

RECURSIVE MCmpAt(_, _, _)
MCmpAt(a, b, i) == IF i = 0 THEN 0
                   ELSE IF a[i] < b[i] THEN -1
                   ELSE IF a[i] > b[i] THEN 1
                   ELSE MCmpAt(a, b, i - 1)
\* -1, 0, 1 (both normalised)
MCmp(a, b) == IF Len(a) < Len(b) THEN -1
              ELSE IF Len(a) > Len(b) THEN 1
              ELSE MCmpAt(a, b, Len(a))

RECURSIVE MAddAt(_, _, _, _)
MAddAt(a, b, i, c) ==
    IF i > Len(a) /\ i > Len(b) THEN (IF c = 0 THEN <<>> ELSE <<c>>)
    ELSE LET s == Limb(a, i) + Limb(b, i) + c
         IN <<s % B>> \o MAddAt(a, b, i + 1, s \div B)
MAdd(a, b) == MAddAt(a, b, 1, 0)

\* a - b for a >= b
RECURSIVE MSubAt(_, _, _, _)
MSubAt(a, b, i, br) ==
    IF i > Len(a) THEN <<>>
    ELSE LET d == a[i] - Limb(b, i) - br
         IN IF d < 0 THEN <<d + B>> \o MSubAt(a, b, i + 1, 1)
                     ELSE <<d>> \o MSubAt(a, b, i + 1, 0)
MSub(a, b) == MNorm(MSubAt(a, b, 1, 0))

\* a * k for 0 <= k < 2^15
RECURSIVE MMulSmallAt(_, _, _, _)
MMulSmallAt(a, k, i, c) ==
    IF i > Len(a) THEN (IF c = 0 THEN <<>> ELSE <<c>>)
    ELSE LET p == a[i] * k + c
         IN <<p % B>> \o MMulSmallAt(a, k, i + 1, p \div B)
MMulSmall(a, k) == IF k = 0 THEN <<>> ELSE MMulSmallAt(a, k, 1, 0)

\* m * 2^(15*n)
MShlLimbs(m, n) == IF m = <<>> THEN <<>> ELSE [i \in 1..n |-> 0] \o m

RECURSIVE MMul(_, _)
MMul(a, b) == IF a = <<>> \/ b = <<>> THEN <<>>
              ELSE MAdd(MMulSmall(b, a[1]), MShlLimbs(MMul(Tail(a), b), 1))

\* <<quotient, remainder>> of a by 0 < d <= 2^15; the remainder is an integer
RECURSIVE MDivSmallAt(_, _, _, _)
MDivSmallAt(a, d, i, r) ==   \* from the most significant limb down; returns <<q limbs (little endian), r>>
    IF i = 0 THEN <<<<>>, r>>
    ELSE LET cur  == r * B + a[i]
             rest == MDivSmallAt(a, d, i - 1, cur % d)
         IN <<rest[1] \o <<cur \div d>>, rest[2]>>
MDivSmall(a, d) == LET qr == MDivSmallAt(a, d, Len(a), 0) IN <<MNorm(qr[1]), qr[2]>>

Pow2Small(k) == 2^k       \* k <= 15

\* m * 2^n
MShl(m, n) == MShlLimbs(MMulSmall(m, Pow2Small(n % LB)), n \div LB)

\* floor(m / 2^n)
MShr(m, n) ==
    LET dl == n \div LB
        db == n % LB
    IN IF dl >= Len(m) THEN <<>>
       ELSE LET hi == SubSeq(m, dl + 1, Len(m))
            IN IF db = 0 THEN hi ELSE MDivSmall(hi, Pow2Small(db))[1]

\* m mod 2^n
MLow(m, n) ==
    LET dl == n \div LB
        db == n % LB
    IN IF dl >= Len(m) THEN m
       ELSE MNorm(SubSeq(m, 1, dl) \o (IF db = 0 THEN <<>> ELSE <<m[dl + 1] % Pow2Small(db)>>))

RECURSIVE BitLenSmall(_)
BitLenSmall(x) == IF x = 0 THEN 0 ELSE 1 + BitLenSmall(x \div 2)
MBitLen(m) == IF m = <<>> THEN 0 ELSE LB * (Len(m) - 1) + BitLenSmall(m[Len(m)])

MBit(m, i) == (Limb(m, (i \div LB) + 1) \div Pow2Small(i % LB)) % 2     \* bit i (0 = least significant)

MPow2(n) == MShl(<<1>>, n)

\* number of trailing zero bits (m # <<>>)
RECURSIVE TzSmall(_)
TzSmall(x) == IF x % 2 = 1 THEN 0 ELSE 1 + TzSmall(x \div 2)
RECURSIVE MTzAt(_, _)
MTzAt(m, i) == IF m[i] = 0 THEN LB + MTzAt(m, i + 1) ELSE TzSmall(m[i])
MTz(m) == MTzAt(m, 1)

\* long division by limbs (Knuth D with an under-estimated quotient digit):
\* <<quotient, remainder>>, b # <<>>.  The divisor is scaled so that its top limb is
\* at least 2^14; then floor(top two limbs of the running remainder / (top limb of
\* b + 1)) is at most 3 below the true digit, and MFix corrects it.
RECURSIVE MFix(_, _, _)
MFix(rem, b, q) == IF MCmp(rem, b) >= 0 THEN MFix(MSub(rem, b), b, q + 1) ELSE <<q, rem>>
MDigit(cur, b) ==
    LET n  == Len(b)
        c2 == Limb(cur, n) + B * Limb(cur, n + 1)
        q1 == c2 \div (b[n] + 1)
    IN MFix(MSub(cur, MMulSmall(b, q1)), b, q1)
RECURSIVE MDivLimbs(_, _, _, _)
MDivLimbs(a, b, i, r) ==      \* <<quotient limbs for positions 1..i (little endian), remainder>>
    IF i = 0 THEN <<<<>>, r>>
    ELSE LET cur  == MNorm(<<a[i]>> \o r)
             d    == MDigit(cur, b)
             rest == MDivLimbs(a, b, i - 1, d[2])
         IN <<rest[1] \o <<d[1]>>, rest[2]>>
MDivMod(a, b) ==
    IF MCmp(a, b) < 0 THEN <<<<>>, a>>
    ELSE IF Len(b) = 1 THEN LET qr == MDivSmall(a, b[1]) IN <<qr[1], MFromNat(qr[2])>>
    ELSE LET s  == LB - BitLenSmall(b[Len(b)])
             an == MShl(a, s)
             qr == MDivLimbs(an, MShl(b, s), Len(an), <<>>)
         IN <<MNorm(qr[1]), MShr(qr[2], s)>>

MAnd(a, b)    == MNorm([i \in 1..(IF Len(a) < Len(b) THEN Len(a) ELSE Len(b)) |-> a[i] & b[i]])
MOr(a, b)     == [i \in 1..(IF Len(a) > Len(b) THEN Len(a) ELSE Len(b)) |-> Limb(a, i) | Limb(b, i)]
MXor(a, b)    == MNorm([i \in 1..(IF Len(a) > Len(b) THEN Len(a) ELSE Len(b)) |-> Limb(a, i) ^^ Limb(b, i)])
MAndNot(a, b) == MNorm([i \in 1..Len(a) |-> a[i] - (a[i] & Limb(b, i))])

-------------------------------------------------------------------------------
(* Integers.                                                                   *)

Mk(neg, mag) == [neg |-> (neg /\ mag # <<>>), mag |-> mag]
Zero   == Mk(FALSE, <<>>)
One    == Mk(FALSE, <<1>>)
FromInt(n) == IF n < 0 THEN Mk(TRUE, MFromNat(-n)) ELSE Mk(FALSE, MFromNat(n))
Pow2(n)    == Mk(FALSE, MPow2(n))

IsZero(x) == x.mag = <<>>
Sign(x)   == IF x.mag = <<>> THEN 0 ELSE IF x.neg THEN -1 ELSE 1
Neg(x)    == Mk(~x.neg, x.mag)
Abs(x)    == Mk(FALSE, x.mag)
BitLen(x) == MBitLen(x.mag)                    \* of the absolute value (go/constant.BitLen)
IsOdd(x)  == Limb(x.mag, 1) % 2 = 1

Cmp(x, y) ==
    IF x.neg # y.neg THEN (IF x.neg THEN -1 ELSE 1)
    ELSE IF x.neg THEN MCmp(y.mag, x.mag) ELSE MCmp(x.mag, y.mag)
Lt(x, y) == Cmp(x, y) < 0
Le(x, y) == Cmp(x, y) <= 0
Eq(x, y) == Cmp(x, y) = 0

Add(x, y) ==
    IF x.neg = y.neg THEN Mk(x.neg, MAdd(x.mag, y.mag))
    ELSE LET c == MCmp(x.mag, y.mag)
         IN IF c = 0 THEN Zero
            ELSE IF c > 0 THEN Mk(x.neg, MSub(x.mag, y.mag))
            ELSE Mk(y.neg, MSub(y.mag, x.mag))
Sub(x, y) == Add(x, Neg(y))
Mul(x, y) == Mk(x.neg # y.neg, MMul(x.mag, y.mag))

\* truncated division (Go): quotient rounds toward zero, remainder has the sign of the dividend
Quo(x, y) == Mk(x.neg # y.neg, MDivMod(x.mag, y.mag)[1])
Rem(x, y) == Mk(x.neg, MDivMod(x.mag, y.mag)[2])

Pred(x) == Sub(x, One)
Succ(x) == Add(x, One)

\* x * 2^n
Shl(x, n) == Mk(x.neg, MShl(x.mag, n))
\* floor(x / 2^n): arithmetic shift
Shr(x, n) == IF ~x.neg THEN Mk(FALSE, MShr(x.mag, n))
             ELSE Neg(Succ(Mk(FALSE, MShr(MSub(x.mag, <<1>>), n))))     \* -(((|x|-1) >> n) + 1)

\* bitwise operators on the infinite two's-complement reading:  ^x = -x-1
BNot(x) == Neg(Succ(x))
\* for negative x: the magnitude of ^x, that is |x| - 1
LOCAL NM(x) == MSub(x.mag, <<1>>)
\* -(m) - 1 for a magnitude m
LOCAL NegSucc(m) == Mk(TRUE, MAdd(m, <<1>>))

BAnd(x, y) ==
    IF ~x.neg /\ ~y.neg THEN Mk(FALSE, MAnd(x.mag, y.mag))
    ELSE IF x.neg /\ y.neg THEN NegSucc(MOr(NM(x), NM(y)))
    ELSE IF x.neg THEN Mk(FALSE, MAndNot(y.mag, NM(x)))
    ELSE Mk(FALSE, MAndNot(x.mag, NM(y)))
BOr(x, y) ==
    IF ~x.neg /\ ~y.neg THEN Mk(FALSE, MOr(x.mag, y.mag))
    ELSE IF x.neg /\ y.neg THEN NegSucc(MAnd(NM(x), NM(y)))
    ELSE IF x.neg THEN NegSucc(MAndNot(NM(x), y.mag))
    ELSE NegSucc(MAndNot(NM(y), x.mag))
BXor(x, y) ==
    IF ~x.neg /\ ~y.neg THEN Mk(FALSE, MXor(x.mag, y.mag))
    ELSE IF x.neg /\ y.neg THEN Mk(FALSE, MXor(NM(x), NM(y)))
    ELSE IF x.neg THEN NegSucc(MXor(NM(x), y.mag))
    ELSE NegSucc(MXor(x.mag, NM(y)))
BAndNot(x, y) == BAnd(x, BNot(y))

\* two's-complement truncation to w bits: the value a machine integer of that width
\* holds after storing x (what C02's BV.Trunc does on bit patterns)
TruncU(x, w) == BAnd(x, Pred(Pow2(w)))
TruncS(x, w) == LET u == TruncU(x, w) IN IF MBit(u.mag, w - 1) = 1 THEN Sub(u, Pow2(w)) ELSE u

InRange(x, lo, hi) == Le(lo, x) /\ Le(x, hi)

-------------------------------------------------------------------------------
(* Decimal digits, most significant first (<<0>> for zero), of a magnitude.    *)
RECURSIVE MChunks(_)
MChunks(m) == IF m = <<>> THEN <<>>
              ELSE LET qr == MDivSmall(m, 10000) IN MChunks(qr[1]) \o <<qr[2]>>      \* most significant chunk first
Dig4(c) == <<c \div 1000, (c \div 100) % 10, (c \div 10) % 10, c % 10>>
RECURSIVE StripZeros(_)
StripZeros(d) == IF Len(d) > 1 /\ d[1] = 0 THEN StripZeros(Tail(d)) ELSE d
RECURSIVE FlatDig(_)
FlatDig(ch) == IF ch = <<>> THEN <<>> ELSE Dig4(ch[1]) \o FlatDig(Tail(ch))
MToDec(m) == IF m = <<>> THEN <<0>> ELSE StripZeros(FlatDig(MChunks(m)))
ToDec(x)  == [neg |-> x.neg, dig |-> MToDec(x.mag)]

RECURSIVE MFromDecAt(_, _, _)
MFromDecAt(d, i, acc) == IF i > Len(d) THEN acc
                         ELSE MFromDecAt(d, i + 1, MAdd(MMulSmall(acc, 10), MFromNat(d[i])))
FromDec(r) == Mk(r.neg, MFromDecAt(r.dig, 1, <<>>))
===============================================================================
