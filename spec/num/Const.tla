-------------------------------- MODULE Const --------------------------------
(* C03 - constant expressions follow Go's exact constant semantics.            *)
(*                                                                             *)
(* The module states what value, type and default type the Go specification    *)
(* assigns to a constant expression, and when the expression must be rejected  *)
(* (overflow of a typed result, truncation, division by zero, bad shift        *)
(* count), for expression trees, for constants used in typed contexts, and for *)
(* const blocks with iota and implicit repetition.  It is generator + oracle:  *)
(* every state carries one case and the verdict; the harness renders the case  *)
(* as a Go program, runs the interpreter and compares.                         *)
(*                                                                             *)
(* A constant is [class, typ, i, x, s, b]:                                     *)
(*   class "int" | "rune" | "float" | "string" | "bool"                        *)
(*   typ   "untyped" or a basic kind ("int8" .. "float64", "string", "bool")   *)
(*   i, x  numeric value i * 2^x (i a BigInt; x = 0 for int/rune; floats are   *)
(*         exact dyadic rationals, normalised so that i is odd or zero)        *)
(*   s     string value as a sequence of code points;  b  boolean value        *)
(* Non-dyadic quotients and float mantissas beyond the 256 bits the language   *)
(* guarantees are "unspec" (not generated); untyped integers beyond 512 bits   *)
(* and shift counts beyond go/types' bound set the flag lim (an implementation *)
(* restriction: an implementation may reject them or evaluate them exactly).   *)
EXTENDS BigInt, FiniteSets, TLC, Json, Randomization

-------------------------------------------------------------------------------
(* Kinds.                                                                      *)
SignedKinds   == {"int8", "int16", "int32", "int64", "int"}
UnsignedKinds == {"uint8", "uint16", "uint32", "uint64", "uint", "uintptr"}
IntKinds      == SignedKinds \cup UnsignedKinds
FloatKinds    == {"float32", "float64"}
NumKinds      == IntKinds \cup FloatKinds
Kinds         == NumKinds \cup {"string", "bool"}

Width(k) == CASE k \in {"int8", "uint8"}   -> 8
              [] k \in {"int16", "uint16"} -> 16
              [] k \in {"int32", "uint32", "float32"} -> 32
              [] OTHER -> 64
KMin == [k \in IntKinds |-> IF k \in SignedKinds THEN Neg(Pow2(Width(k) - 1)) ELSE Zero]
KMax == [k \in IntKinds |-> IF k \in SignedKinds THEN Pred(Pow2(Width(k) - 1)) ELSE Pred(Pow2(Width(k)))]

ClassOfKind(k) == IF k \in IntKinds THEN "int" ELSE IF k \in FloatKinds THEN "float" ELSE k

MaxUntypedBits == 512      \* go/types: untyped integer constants beyond 512 bits are an error
MaxMantBits    == 256      \* the language guarantees at least 256 bits of mantissa
ShiftBound     == 1074     \* go/types: constant shift counts above 1023 - 1 + 52 are an error
MaxArrayLen    == 65536
MaxBits        == 4096     \* beyond this the model does not follow the value ("unspec")

-------------------------------------------------------------------------------
(* Constants and results.                                                      *)
Con(class, typ, i, x, s, b) == [class |-> class, typ |-> typ, i |-> i, x |-> x, s |-> s, b |-> b]
IntC(cls, typ, v) == Con(cls, typ, v, 0, <<>>, FALSE)
StrC(typ, s)      == Con("string", typ, Zero, 0, s, FALSE)
BoolC(typ, b)     == Con("bool", typ, Zero, 0, <<>>, b)
\* i * 2^x, normalised
FloatC(typ, i, x) ==
    IF IsZero(i) THEN Con("float", typ, Zero, 0, <<>>, FALSE)
    ELSE LET tz == MTz(i.mag) IN Con("float", typ, Mk(i.neg, MShr(i.mag, tz)), x + tz, <<>>, FALSE)

IsNum(c)    == c.class \in {"int", "rune", "float"}
IsIntCls(c) == c.class \in {"int", "rune"}
Untyped(c)  == c.typ = "untyped"
Rank(cls)   == CASE cls = "int" -> 1 [] cls = "rune" -> 2 [] OTHER -> 3
DefaultKind(cls) == CASE cls = "int" -> "int" [] cls = "rune" -> "int32" [] cls = "float" -> "float64" [] OTHER -> cls

\* why a case is rejected: reason, the site (operation or context) that rejects, the target
\* kind, whether the offending operand is an untyped or a typed constant, how far outside
\* the target it is (mag), its class (cls), and - for contexts - the form of the value
\* expression (root: "lit", "un", "bin", "conv", ...)
NoWhy == [reason |-> "", site |-> "", kind |-> "", opnd |-> "", mag |-> "", cls |-> "", root |-> ""]
Why(reason, site, kind, opnd, mag) == [reason |-> reason, site |-> site, kind |-> kind, opnd |-> opnd, mag |-> mag, cls |-> "", root |-> ""]
WithCls(r, c) == IF r.st = "reject" THEN [r EXCEPT !.why.cls = c.class] ELSE r
Dummy == IntC("int", "untyped", Zero)

\* st: "ok" | "reject" | "unspec" | "illtyped".  lim: some intermediate untyped integer
\* exceeded 512 bits or a constant shift count exceeded go/types' bound (the value is
\* still the exact one: an implementation may reject the expression or evaluate it).
\* inner: the verdict comes from a proper sub-expression (the operation that produced it is not the outermost one)
Ok(c)            == [st |-> "ok", c |-> c, why |-> NoWhy, tags |-> {}, nrej |-> 0, lim |-> FALSE, inner |-> FALSE]
OkLim(c)         == [st |-> "ok", c |-> c, why |-> NoWhy, tags |-> {}, nrej |-> 0, lim |-> TRUE, inner |-> FALSE]
Bad(st, why)     == [st |-> st, c |-> Dummy, why |-> why, tags |-> {}, nrej |-> IF st = "reject" THEN 1 ELSE 0, lim |-> FALSE, inner |-> FALSE]
Reject(why)      == Bad("reject", why)
Illtyped         == Bad("illtyped", NoWhy)
Unspec           == Bad("unspec", NoWhy)
Severity(st) == CASE st = "ok" -> 0 [] st = "reject" -> 1 [] st = "unspec" -> 3 [] OTHER -> 4
\* tags and the limit flag of the operands carry over to the result
From1(r, ra)     == [r EXCEPT !.tags = r.tags \cup ra.tags, !.lim = r.lim \/ ra.lim]
From2(r, ra, rb) == [r EXCEPT !.tags = r.tags \cup ra.tags \cup rb.tags, !.lim = r.lim \/ ra.lim \/ rb.lim]
AddTags(r, t)    == [r EXCEPT !.tags = r.tags \cup t]
\* the result of an operation one of whose operands is not ok: the worst operand
\* (the left one on equal severity); reject sites are counted
Worst(ra, rb) ==
    LET w == IF Severity(rb.st) > Severity(ra.st) THEN rb ELSE ra
    IN [w EXCEPT !.tags = ra.tags \cup rb.tags, !.nrej = ra.nrej + rb.nrej, !.lim = ra.lim \/ rb.lim, !.inner = TRUE]
Inner(ra) == [ra EXCEPT !.inner = TRUE]

-------------------------------------------------------------------------------
(* Float arithmetic on exact dyadic values.                                    *)
FIsInt(c)  == c.x >= 0
FToInt(c)  == Shl(c.i, c.x)                        \* for FIsInt(c)
\* the numeric value of a constant as <<i, x>>
AsFloat(c) == IF c.class = "float" THEN c ELSE FloatC(c.typ, c.i, 0)
IntValue(c) == IF c.class = "float" THEN FToInt(c) ELSE c.i     \* for integral c

MinI(a, b) == IF a < b THEN a ELSE b
MaxI(a, b) == IF a > b THEN a ELSE b
FAlign(a, e) == Shl(a.i, a.x - e)
FCmp(a, b) == LET e == MinI(a.x, b.x) IN Cmp(FAlign(a, e), FAlign(b, e))
FAdd(typ, a, b) == LET e == MinI(a.x, b.x) IN FloatC(typ, Add(FAlign(a, e), FAlign(b, e)), e)
FSub(typ, a, b) == LET e == MinI(a.x, b.x) IN FloatC(typ, Sub(FAlign(a, e), FAlign(b, e)), e)
FMul(typ, a, b) == FloatC(typ, Mul(a.i, b.i), a.x + b.x)
\* a / b is dyadic iff the odd part of b divides the mantissa of a
FDivides(a, b) == IsZero(Rem(a.i, b.i))
FQuo(typ, a, b) == FloatC(typ, Quo(a.i, b.i), a.x - b.x)

\* IEEE-754 binary32 / binary64: precision, minimum normal exponent, maximum exponent
Prec(k) == IF k = "float32" THEN 24 ELSE 53
EMin(k) == IF k = "float32" THEN -126 ELSE -1022
EMax(k) == IF k = "float32" THEN 127 ELSE 1023
\* round a float-class constant to kind k: nearest, ties to even, gradual underflow;
\* [ovf |-> the rounded value is beyond the largest finite value, c |-> rounded constant of type typ]
RoundTo(a, k, typ) ==
    IF IsZero(a.i) THEN [ovf |-> FALSE, c |-> FloatC(typ, Zero, 0)]
    ELSE LET e == BitLen(a.i) - 1 + a.x
             q == MaxI(e, EMin(k)) - (Prec(k) - 1)
         IN IF a.x >= q THEN [ovf |-> e > EMax(k), c |-> FloatC(typ, a.i, a.x)]
            ELSE LET s    == q - a.x
                     m0   == MShr(a.i.mag, s)
                     c    == MCmp(MLow(a.i.mag, s), MPow2(s - 1))
                     up   == c > 0 \/ (c = 0 /\ Limb(m0, 1) % 2 = 1)
                     m    == IF up THEN MAdd(m0, <<1>>) ELSE m0
                 IN IF m = <<>> THEN [ovf |-> FALSE, c |-> FloatC(typ, Zero, 0)]
                    ELSE [ovf |-> MBitLen(m) - 1 + q > EMax(k), c |-> FloatC(typ, Mk(a.i.neg, m), q)]

\* rounding to float32 directly and rounding to float64 first give different results (a tag:
\* the specification rounds ONCE; an implementation that narrows a float64 is wrong exactly here)
DoubleRoundingDiffers(a) ==
    LET once == RoundTo(a, "float32", "float32")
        via  == RoundTo(a, "float64", "float64")
        twice == IF via.ovf THEN via ELSE RoundTo(via.c, "float32", "float32")
    IN once.ovf # twice.ovf \/ (~once.ovf /\ (once.c.i # twice.c.i \/ once.c.x # twice.c.x))

\* exactly representable (no rounding, no overflow)
ExactIn(a, k) == LET r == RoundTo(a, k, a.typ) IN ~r.ovf /\ r.c.i = a.i /\ r.c.x = a.x

-------------------------------------------------------------------------------
(* Representability and conversion of a numeric constant to a numeric kind.    *)
RepInt(v, k) == InRange(v, KMin[k], KMax[k])
\* how far outside: "w" = its magnitude still fits in Width(k) bits, "w64" = in 64 bits, "big"
MagClass(v, k) == IF BitLen(v) <= Width(k) THEN "w" ELSE IF BitLen(v) <= 64 THEN "w64" ELSE "big"
SignOf(v) == IF v.neg THEN "-" ELSE "+"

Representable(c, k) ==
    IF k \in IntKinds THEN
        IsNum(c) /\ (c.class = "float" => FIsInt(c)) /\ RepInt(IntValue(c), k)
    ELSE IF k \in FloatKinds THEN IsNum(c) /\ ~RoundTo(AsFloat(c), k, k).ovf
    ELSE c.class = k

\* c numeric, k numeric kind; site/opnd describe where the conversion happens
ConvNumTo0(c, k, site, opnd) ==
    IF k \in IntKinds THEN
        IF c.class = "float" /\ ~FIsInt(c) THEN Reject(Why("truncated", site, k, opnd, ""))
        ELSE LET v == IntValue(c)
             IN IF RepInt(v, k) THEN
                    (IF c.class = "float" /\ Untyped(c) /\ ~ExactIn(c, "float64")
                     THEN AddTags(Ok(IntC("int", k, v)), {"float-inexact-to-int"}) ELSE Ok(IntC("int", k, v)))
                ELSE Reject(Why("overflow", site, k, opnd, SignOf(v) \o MagClass(v, k)))
    ELSE LET r == RoundTo(AsFloat(c), k, k)
         IN IF r.ovf THEN Reject(Why("overflow", site, k, opnd, "f"))
            ELSE IF k = "float32" /\ DoubleRoundingDiffers(AsFloat(c)) THEN AddTags(Ok(r.c), {"f32-double-rounding"})
            ELSE Ok(r.c)
ConvNumTo(c, k, site, opnd) == WithCls(ConvNumTo0(c, k, site, opnd), c)

\* the untyped bounds
Finish(c, site) ==
    IF Untyped(c) THEN
        IF IsIntCls(c) /\ BitLen(c.i) > MaxBits THEN Unspec
        ELSE IF IsIntCls(c) /\ BitLen(c.i) > MaxUntypedBits THEN OkLim(c)
        ELSE IF c.class = "float" /\ BitLen(c.i) > MaxMantBits THEN Unspec
        ELSE Ok(c)
    ELSE IF c.typ \in NumKinds THEN ConvNumTo(c, c.typ, site, "typed")
    ELSE Ok(c)

ToClass(c, cls) ==
    IF cls = "float" THEN (IF c.class = "float" THEN c ELSE FloatC(c.typ, c.i, 0))
    ELSE [c EXCEPT !.class = cls]

\* the machine type the untyped constant takes by default represents it exactly
ExactInDefault(c) ==
    CASE c.class = "int"   -> RepInt(c.i, "int")
      [] c.class = "rune"  -> RepInt(c.i, "int32")
      [] c.class = "float" -> ExactIn(c, "float64")
      [] OTHER -> TRUE

-------------------------------------------------------------------------------
(* Operand matching of a binary (non-shift) operation.                         *)
\* convert the untyped constant u to the type of the typed constant t
Implicit(u, t) ==
    IF t.typ \in NumKinds THEN (IF IsNum(u) THEN ConvNumTo(u, t.typ, "implicit", "untyped") ELSE Illtyped)
    ELSE IF u.class = t.class THEN Ok([u EXCEPT !.typ = t.typ]) ELSE Illtyped

\* [st, why, a, b]
Matched(a, b)  == [r |-> Ok(a), a |-> a, b |-> b]
MatchFail(r)   == [r |-> r, a |-> Dummy, b |-> Dummy]
Match(a, b) ==
    IF Untyped(a) /\ Untyped(b) THEN
        IF IsNum(a) /\ IsNum(b) THEN
            LET cls == IF Rank(a.class) >= Rank(b.class) THEN a.class ELSE b.class
            IN Matched(ToClass(a, cls), ToClass(b, cls))
        ELSE IF a.class = b.class THEN Matched(a, b)
        ELSE MatchFail(Illtyped)
    ELSE IF Untyped(b) THEN
        LET r == Implicit(b, a) IN IF r.st = "ok" THEN Matched(a, r.c) ELSE MatchFail(r)
    ELSE IF Untyped(a) THEN
        LET r == Implicit(a, b) IN IF r.st = "ok" THEN Matched(r.c, b) ELSE MatchFail(r)
    ELSE IF a.typ = b.typ THEN Matched(a, b)
    ELSE MatchFail(Illtyped)

ArithOps == {"+", "-", "*", "/", "%", "&", "|", "^", "&^"}
ShiftOps == {"<<", ">>"}
CmpOps   == {"==", "!=", "<", "<=", ">", ">="}
LogicOps == {"&&", "||"}
BinOps   == ArithOps \cup ShiftOps \cup CmpOps \cup LogicOps
UnOps    == {"+", "-", "^", "!"}

\* Named exclusion: the reference itself deviates from the language here.  go/constant
\* computes the quotient of two constants that fit int64 in int64, so (-1 << 63) / -1 wraps to
\* -1 << 63 (go1.23: `const x = (-1 * 9223372036854775808) / -1` is negative) where the
\* specification's exact arithmetic gives 1 << 63.  The case cannot be triangulated and is not generated.
Excluded_GoConstant_MinInt64QuoMinusOne(a, b) ==
    Untyped(a) /\ a.i = Neg(Pow2(63)) /\ b.i = FromInt(-1)

\* a, b matched (same type; same class for numbers)
Arith(op, a, b) ==
    IF a.class = "string" THEN
        (IF op = "+" THEN Ok(StrC(a.typ, a.s \o b.s)) ELSE Illtyped)
    ELSE IF a.class = "bool" THEN Illtyped
    ELSE IF a.class = "float" THEN
        CASE op = "+" -> Finish(FAdd(a.typ, a, b), "arith")
          [] op = "-" -> Finish(FSub(a.typ, a, b), "arith")
          [] op = "*" -> Finish(FMul(a.typ, a, b), "arith")
          [] op = "/" -> IF IsZero(b.i) THEN Reject(Why("divzero", "arith", a.typ, IF Untyped(a) THEN "untyped" ELSE "typed", ""))
                         ELSE IF ~FDivides(a, b) THEN Unspec
                         ELSE Finish(FQuo(a.typ, a, b), "arith")
          [] OTHER    -> Illtyped
    ELSE \* integer class
        LET mk(v) == Finish(IntC(a.class, a.typ, v), "arith")
            dz    == Reject(Why("divzero", "arith", a.typ, IF Untyped(a) THEN "untyped" ELSE "typed", ""))
        IN CASE op = "+"  -> mk(Add(a.i, b.i))
             [] op = "-"  -> mk(Sub(a.i, b.i))
             [] op = "*"  -> mk(Mul(a.i, b.i))
             [] op = "/"  -> IF IsZero(b.i) THEN dz
                             ELSE IF Excluded_GoConstant_MinInt64QuoMinusOne(a, b) THEN Unspec
                             ELSE mk(Quo(a.i, b.i))
             [] op = "%"  -> IF IsZero(b.i) THEN dz ELSE mk(Rem(a.i, b.i))
             [] op = "&"  -> mk(BAnd(a.i, b.i))
             [] op = "|"  -> mk(BOr(a.i, b.i))
             [] op = "^"  -> mk(BXor(a.i, b.i))
             [] op = "&^" -> mk(BAndNot(a.i, b.i))

RECURSIVE SeqCmp(_, _, _)
SeqCmp(s, t, i) ==
    IF i > Len(s) /\ i > Len(t) THEN 0
    ELSE IF i > Len(s) THEN -1
    ELSE IF i > Len(t) THEN 1
    ELSE IF s[i] < t[i] THEN -1
    ELSE IF s[i] > t[i] THEN 1
    ELSE SeqCmp(s, t, i + 1)

CmpHolds(op, c) ==
    CASE op = "==" -> c = 0 [] op = "!=" -> c # 0 [] op = "<" -> c < 0
      [] op = "<=" -> c <= 0 [] op = ">" -> c > 0 [] op = ">=" -> c >= 0

Compare(op, a, b) ==
    IF a.class = "bool" THEN
        (IF op = "==" THEN Ok(BoolC("untyped", a.b = b.b))
         ELSE IF op = "!=" THEN Ok(BoolC("untyped", a.b # b.b)) ELSE Illtyped)
    ELSE LET c == IF a.class = "string" THEN SeqCmp(a.s, b.s, 1)
                  ELSE IF a.class = "float" THEN FCmp(a, b) ELSE Cmp(a.i, b.i)
         IN Ok(BoolC("untyped", CmpHolds(op, c)))

Logic(op, a, b) ==
    IF a.class # "bool" THEN Illtyped
    ELSE Ok(BoolC(a.typ, IF op = "&&" THEN a.b /\ b.b ELSE a.b \/ b.b))

\* the shift count: [r |-> status, n |-> count as a TLC integer]
ShiftCount(b) ==
    LET cnt(v, opnd) ==
            IF v.neg THEN [r |-> Reject(Why("negshift", "shiftcount", "uint", opnd, "")), n |-> 0]
            ELSE IF opnd = "untyped" /\ BitLen(v) > 64 THEN [r |-> Reject(Why("overflow", "shiftcount", "uint", opnd, "+big")), n |-> 0]
            ELSE IF Cmp(v, FromInt(MaxBits)) > 0 THEN [r |-> Unspec, n |-> 0]
            ELSE IF Cmp(v, FromInt(ShiftBound)) > 0 THEN [r |-> OkLim(b), n |-> MSmall(v.mag)]
            ELSE [r |-> Ok(b), n |-> MSmall(v.mag)]
    IN IF Untyped(b) THEN
           IF ~IsNum(b) THEN [r |-> Illtyped, n |-> 0]
           ELSE IF b.class = "float" /\ ~FIsInt(b) THEN [r |-> Reject(Why("truncated", "shiftcount", "uint", "untyped", "")), n |-> 0]
           ELSE cnt(IntValue(b), "untyped")
       ELSE IF b.typ \in IntKinds THEN cnt(b.i, "typed")
       ELSE [r |-> Illtyped, n |-> 0]

Shift(op, a, b) ==
    LET sc == ShiftCount(b)
        okA == IF Untyped(a) THEN IsNum(a) /\ (a.class = "float" => FIsInt(a)) ELSE a.typ \in IntKinds
    IN IF ~okA THEN Illtyped
       ELSE IF sc.r.st # "ok" THEN sc.r
       ELSE LET v   == IntValue(a)
                cls == IF Untyped(a) /\ a.class = "rune" THEN "rune" ELSE "int"
                w   == IF op = "<<" THEN Shl(v, sc.n) ELSE Shr(v, sc.n)
                f   == Finish(IntC(cls, a.typ, w), "shift")
            IN [f EXCEPT !.lim = f.lim \/ sc.r.lim]

\* both untyped numeric and one of them is not held exactly by its default machine type
\* (each operand as written, and as converted to the common class of the two)
CmpTag(a, b) ==
    IF Untyped(a) /\ Untyped(b) /\ IsNum(a) /\ IsNum(b)
       /\ LET cls == IF Rank(a.class) >= Rank(b.class) THEN a.class ELSE b.class
          IN ~ExactInDefault(a) \/ ~ExactInDefault(b) \/ ~ExactInDefault(ToClass(a, cls)) \/ ~ExactInDefault(ToClass(b, cls))
    THEN {"cmp-inexact"} ELSE {}

Apply2(op, ra, rb) ==
    IF ra.st # "ok" \/ rb.st # "ok" THEN Worst(ra, rb)
    ELSE LET a == ra.c
             b == rb.c
             cl == IF op \in ArithOps THEN "arith" ELSE IF op \in CmpOps THEN "cmp" ELSE "logic"
             \* operator applicability by class comes first (a type error, not this property's business)
             compat == IF op \in LogicOps THEN a.class = "bool" /\ b.class = "bool"
                       ELSE IF op \in CmpOps THEN (IsNum(a) /\ IsNum(b)) \/ (a.class = b.class /\ ~IsNum(a) /\ (a.class = "bool" => op \in {"==", "!="}))
                       ELSE IF op = "+" THEN (IsNum(a) /\ IsNum(b)) \/ (a.class = "string" /\ b.class = "string")
                       ELSE IF op \in {"-", "*", "/"} THEN IsNum(a) /\ IsNum(b)
                       ELSE \* % & | ^ &^: integers; an untyped float operand is a type error even when integral
                            IsIntCls(a) /\ IsIntCls(b)
         IN IF op \in ShiftOps THEN From2(Shift(op, a, b), ra, rb)
            ELSE IF ~compat \/ (~Untyped(a) /\ ~Untyped(b) /\ a.typ # b.typ) THEN From2(Illtyped, ra, rb)
            ELSE LET m == Match(a, b)
                 IN IF m.r.st = "reject" THEN
                        \* (a zero divisor is a second, independent reason to reject the same operation)
                        AddTags(From2([m.r EXCEPT !.why.site = "implicit-" \o cl], ra, rb),
                                IF op \in {"/", "%"} /\ IsNum(b) /\ IsZero(b.i) THEN {"also-divzero"} ELSE {})
                    ELSE IF m.r.st # "ok" THEN From2(m.r, ra, rb)
                    ELSE IF op \in ArithOps THEN
                        AddTags(From2(Arith(op, m.a, m.b), ra, rb),
                                IF op = "/" /\ Untyped(a) /\ Untyped(b) /\ {a.class, b.class} = {"int", "rune"} THEN {"quo-rune-int"} ELSE {})
                    ELSE IF op \in CmpOps THEN AddTags(From2(Compare(op, m.a, m.b), ra, rb), CmpTag(a, b))
                    ELSE From2(Logic(op, m.a, m.b), ra, rb)

Apply1(op, ra) ==
    IF ra.st # "ok" THEN Inner(ra)
    ELSE LET a == ra.c
             r == CASE op = "!" -> IF a.class = "bool" THEN Ok(BoolC(a.typ, ~a.b)) ELSE Illtyped
                    [] op = "+" -> IF IsNum(a) THEN Ok(a) ELSE Illtyped
                    [] op = "-" -> IF ~IsNum(a) THEN Illtyped
                                   ELSE IF a.class = "float" THEN Finish(FloatC(a.typ, Neg(a.i), a.x), "unary")
                                   ELSE Finish(IntC(a.class, a.typ, Neg(a.i)), "unary")
                    [] op = "^" -> IF ~IsIntCls(a) THEN Illtyped
                                   ELSE IF a.typ \in UnsignedKinds THEN Ok(IntC("int", a.typ, Sub(KMax[a.typ], a.i)))
                                   ELSE Finish(IntC(a.class, a.typ, BNot(a.i)), "unary")
         IN From1(r, ra)

\* T(x)
ValidRune(v) == ~v.neg /\ Cmp(v, FromInt(1114111)) <= 0
                /\ ~(Cmp(v, FromInt(55296)) >= 0 /\ Cmp(v, FromInt(57343)) <= 0)
Convert(k, ra) ==
    IF ra.st # "ok" THEN Inner(ra)
    ELSE LET a == ra.c
             opnd == IF Untyped(a) THEN "untyped" ELSE "typed"
             r == IF k \in NumKinds THEN (IF IsNum(a) THEN ConvNumTo(a, k, "conv", opnd) ELSE Illtyped)
                  ELSE IF k = "string" THEN
                      (IF a.class = "string" THEN Ok(StrC("string", a.s))
                       ELSE IF IsIntCls(a) THEN
                           (IF RepInt(a.i, "int32") THEN Ok(StrC("string", <<IF ValidRune(a.i) THEN MSmall(a.i.mag) ELSE 65533>>))
                            ELSE AddTags(Ok(StrC("string", <<65533>>)), {"string-of-wide-int"}))
                       ELSE Illtyped)
                  ELSE (IF a.class = "bool" THEN Ok(BoolC("bool", a.b)) ELSE Illtyped)
         IN From1(r, ra)

Utf8Len(cp) == IF cp < 128 THEN 1 ELSE IF cp < 2048 THEN 2 ELSE IF cp < 65536 THEN 3 ELSE 4
RECURSIVE ByteLen(_)
ByteLen(s) == IF s = <<>> THEN 0 ELSE Utf8Len(s[1]) + ByteLen(Tail(s))

\* len(x) of a constant string
LenOf(ra) ==
    IF ra.st # "ok" THEN Inner(ra)
    ELSE IF ra.c.class = "string" THEN From1(Ok(IntC("int", "int", FromInt(ByteLen(ra.c.s)))), ra)
    ELSE From1(Illtyped, ra)

\* len([x]T{}): x in array-length position
ArrLenOf(ra) ==
    IF ra.st # "ok" THEN Inner(ra)
    ELSE LET a == ra.c
             opnd == IF Untyped(a) THEN "untyped" ELSE "typed"
             r == IF ~IsNum(a) \/ (~Untyped(a) /\ a.typ \notin IntKinds) THEN Illtyped
                  ELSE IF a.class = "float" /\ ~FIsInt(a) THEN Reject(Why("truncated", "arraylen", "int", opnd, ""))
                  ELSE LET v == IntValue(a)
                       IN IF v.neg THEN Reject(Why("negative", "arraylen", "int", opnd, ""))
                          ELSE IF ~RepInt(v, "int") THEN Reject(Why("overflow", "arraylen", "int", opnd, "+" \o MagClass(v, "int")))
                          ELSE IF Cmp(v, FromInt(MaxArrayLen)) > 0 THEN Unspec
                          ELSE IF a.class = "float" THEN AddTags(Ok(IntC("int", "int", v)), {"arraylen-float"})
                          ELSE Ok(IntC("int", "int", v))
         IN From1(r, ra)

-------------------------------------------------------------------------------
(* Expressions: postfix sequences of tokens [k, o, n].                         *)
(*   lit  o = family, n = parameter      un/bin  o = operator                  *)
(*   conv o = kind    len / arrlen       iota                                  *)
Tok(k, o, n) == [k |-> k, o |-> o, n |-> n]
Lit(o, n)  == Tok("lit", o, n)
UnT(o)     == Tok("un", o, 0)
BinT(o)    == Tok("bin", o, 0)
ConvT(k)   == Tok("conv", k, 0)
LenT       == Tok("len", "", 0)
ArrLenT    == Tok("arrlen", "", 0)
IotaT      == Tok("iota", "", 0)
FwdT       == Tok("fwd", "", 0)    \* FwdZ: an untyped constant 10 declared at package level AFTER the block that refers to it

\* Directed float-rounding literals (integers; xf writes them as float literals "d.0").
\* A midpoint of binary32 / binary64 is (2^p + odd) scaled by 2^60, so that "midpoint +- 1" is the
\* midpoint +- 2^-60 relative: rounding once at p bits and rounding first at 53 bits, then at 24,
\* differ on these values.  MaxFloat is 2^(emax+1) - 2^(emax+1-p); a value rounds to it below
\* 2^(emax+1) - 2^(emax-p) and overflows from there on (the tie goes to the even 2^(emax+1)).
MidPt(p, odd, d) == Add(Shl(Add(Pow2(p), FromInt(odd)), 60), FromInt(d))
XVals == <<
    MidPt(24, 1, -1), MidPt(24, 1, 0), MidPt(24, 1, 1),          \*  1.. 3: tie to even goes down
    MidPt(24, 3, -1), MidPt(24, 3, 0), MidPt(24, 3, 1),          \*  4.. 6: tie to even goes up
    Sub(Pow2(128), Pow2(104)),                                    \*  7: MaxFloat32
    Pred(Sub(Pow2(128), Pow2(103))),                              \*  8: one below the overflow threshold
    Sub(Sub(Pow2(128), Pow2(103)), Pow2(68)),                     \*  9: threshold - 2^-60 relative
    Sub(Pow2(128), Pow2(103)),                                    \* 10: threshold: overflows float32
    Succ(Sub(Pow2(128), Pow2(103))),                              \* 11
    MidPt(53, 1, -1), MidPt(53, 1, 0), MidPt(53, 1, 1),          \* 12..14
    MidPt(53, 3, -1), MidPt(53, 3, 0), MidPt(53, 3, 1),          \* 15..17
    Sub(Pow2(1024), Pow2(971)),                                   \* 18: MaxFloat64
    Sub(Sub(Pow2(1024), Pow2(970)), Pow2(910)),                   \* 19: threshold - 2^-60 relative
    Sub(Pow2(1024), Pow2(970)),                                   \* 20: threshold: overflows float64
    Add(Sub(Pow2(1024), Pow2(970)), Pow2(910)) >>                 \* 21
XIntIdx == 1..17            \* usable as untyped integer literals (18..21 exceed 512 bits)

\* literal families: i n (small decimal n), p k (2^k), pm1 k (2^k - 1), pp1 k (2^k + 1),
\* f 1|2|3 (1.0, 0.5, 2.5e3), r n (rune literal of code n), rx n / ro n / ru n / rc n (the rune literal
\* of value n written with a \x escape, an octal escape, a \u escape, as the character itself),
\* s 1 ("ab"), b 0|1 (false, true),
\* x n (integer literal XVals[n]), xf n (float literal XVals[n] written with ".0"),
\* h n (the hexadecimal float literal 0x1p<n>: magnitudes far beyond float64, which an implementation
\* must carry exactly through constant arithmetic - go/constant switches representation near 2^4096)
LitValue(o, n) ==
    CASE o = "i"   -> IntC("int", "untyped", FromInt(n))
      [] o = "p"   -> IntC("int", "untyped", Pow2(n))
      [] o = "pm1" -> IntC("int", "untyped", Pred(Pow2(n)))
      [] o = "pp1" -> IntC("int", "untyped", Succ(Pow2(n)))
      [] o = "f"   -> (CASE n = 1 -> FloatC("untyped", One, 0)
                         [] n = 2 -> FloatC("untyped", One, -1)
                         [] n = 3 -> FloatC("untyped", FromInt(2500), 0))
      [] o = "r"   -> IntC("rune", "untyped", FromInt(n))
      \* rune literals of every lexical form denote the code point (for \x and octal escapes: the byte value)
      [] o \in {"rx", "ro", "ru", "rc"} -> IntC("rune", "untyped", FromInt(n))
      [] o = "x"   -> IntC("int", "untyped", XVals[n])
      [] o = "xf"  -> FloatC("untyped", XVals[n], 0)
      [] o = "h"   -> FloatC("untyped", One, n)          \* 2^n written 0x1p<n>, |n| about 5000
      [] o = "s"   -> StrC("untyped", <<97, 98>>)
      [] o = "b"   -> BoolC("untyped", n = 1)

\* Syntactic facts about the operands of the binary operator at position i, used to tag
\* cases (tags never change a verdict; they let a failing case be attributed precisely).
Arity(t) == CASE t.k \in {"lit", "iota", "fwd"} -> 0 [] t.k = "bin" -> 2 [] OTHER -> 1
RECURSIVE SpanStart(_, _, _)
SpanStart(toks, j, need) ==            \* first index of the sub-expression whose root is at j
    LET m == need + Arity(toks[j]) - 1 IN IF m = 0 THEN j ELSE SpanStart(toks, j - 1, m)
\* a plain operand: a non-negative literal or iota (a negative literal is -x in Go's grammar
\* and is rendered in parentheses)
Plain(t) == t.k \in {"iota", "fwd"} \/ (t.k = "lit" /\ ~(t.o = "i" /\ t.n < 0))
LenOfCompound(toks, j) == toks[j].k = "len" /\ ~Plain(toks[j - 1])
SynTags(toks, i, a, b, rtags) ==
    LET r  == i - 1                              \* root of the right operand
        l  == SpanStart(toks, r, 1) - 1          \* root of the left operand
        o  == toks[i].o
    IN (IF o \in CmpOps /\ Untyped(a) /\ Untyped(b) /\ a.class # "bool" /\ ~Plain(toks[r])
        THEN {"cmp-right-compound"} ELSE {})
       \cup (IF LenOfCompound(toks, r) \/ LenOfCompound(toks, l) THEN {"len-compound-operand"} ELSE {})
       \cup (IF o \in ShiftOps /\ Untyped(a) /\ a.class = "float" THEN {"shift-of-float"} ELSE {})
       \cup (IF o \in ShiftOps /\ Untyped(a) /\ ~Untyped(b) THEN {"shift-typed-count"} ELSE {})
       \cup (IF o \in CmpOps \cup LogicOps THEN {"has-cmp"} ELSE {})
       \cup (IF o \in LogicOps /\ toks[l].k = "conv" /\ "has-cmp" \in rtags THEN {"logic-conv-left"} ELSE {})

Step(toks, i, st, iota) ==
    LET n == Len(st) tok == toks[i] IN
    CASE tok.k = "lit"    -> Append(st, Ok(LitValue(tok.o, tok.n)))
      [] tok.k = "iota"   -> Append(st, Ok(IntC("int", "untyped", FromInt(iota))))
      [] tok.k = "fwd"    -> Append(st, Ok(IntC("int", "untyped", FromInt(10))))
      [] tok.k = "un"     -> Append(SubSeq(st, 1, n - 1),
                                    AddTags(Apply1(tok.o, st[n]), IF LenOfCompound(toks, i - 1) THEN {"len-compound-operand"} ELSE {}))
      [] tok.k = "conv"   -> Append(SubSeq(st, 1, n - 1),
                                    AddTags(Convert(tok.o, st[n]), IF LenOfCompound(toks, i - 1) THEN {"len-compound-operand"} ELSE {}))
      [] tok.k = "len"    -> Append(SubSeq(st, 1, n - 1), LenOf(st[n]))
      [] tok.k = "arrlen" -> Append(SubSeq(st, 1, n - 1), ArrLenOf(st[n]))
      [] tok.k = "bin"    -> Append(SubSeq(st, 1, n - 2),
                                    LET r == Apply2(tok.o, st[n - 1], st[n])
                                    IN IF st[n - 1].st = "ok" /\ st[n].st = "ok"
                                       THEN AddTags(r, SynTags(toks, i, st[n - 1].c, st[n].c, st[n].tags)) ELSE r)

RECURSIVE Run(_, _, _, _)
Run(toks, i, st, iota) == IF i > Len(toks) THEN st[1] ELSE Run(toks, i + 1, Step(toks, i, st, iota), iota)
Eval(toks, iota) == Run(toks, 1, <<>>, iota)
\* the stack just before the last token: the operands of the outermost operation
RECURSIVE RunStack(_, _, _, _, _)
RunStack(toks, i, n, st, iota) == IF i > n THEN st ELSE RunStack(toks, i + 1, n, Step(toks, i, st, iota), iota)
RootOperands(toks, iota) == RunStack(toks, 1, Len(toks) - 1, <<>>, iota)
RootKind(toks) == toks[Len(toks)].k
\* a declaration/assignment with declared kind k whose value is a binary constant expression:
\* Go converts the RESULT to k; the operands keep their own types.  The tag marks the
\* expressions for which converting the operands instead gives another answer.
DeclTags(toks, k, iota) ==
    IF Len(toks) < 3 \/ RootKind(toks) # "bin" \/ k \notin NumKinds THEN {}
    ELSE LET ops == RootOperands(toks, iota)
             o   == toks[Len(toks)].o
         IN IF \E j \in 1..Len(ops) : ops[j].st # "ok" THEN {}
            ELSE IF (o \in ShiftOps /\ k \in FloatKinds)
                    \/ (\E j \in 1..Len(ops) : Untyped(ops[j].c) /\ IsNum(ops[j].c) /\ ~(o \in ShiftOps /\ j = 2)
                                                 /\ ~Representable(ops[j].c, k))
                    \/ (o = "/" /\ k \in FloatKinds /\ \A j \in 1..Len(ops) : IsIntCls(ops[j].c))
                    \/ (k \in FloatKinds /\ LET r == Eval(toks, iota)
                                           IN r.st = "ok" /\ IsNum(r.c)
                                              /\ (~ExactIn(AsFloat(r.c), k) \/ (IsIntCls(r.c) /\ ~RepInt(r.c.i, "int64"))))
                 THEN {"decl-type-on-operands"} ELSE {}

-------------------------------------------------------------------------------
(* Use contexts: an untyped constant v used where a value of kind k is needed. *)
(* ctx: constdecl vardecl assign opassign callarg return elem-slice elem-array *)
(*      elem-mapkey elem-mapval elem-struct binop-var cmp-var                  *)
(* plus arraylen (k = "int", non-negative) and shiftcount (k = "uint") of a    *)
(* non-constant shift.                                                         *)
UseVerdict(ctx, k, toks) ==
    LET r == Eval(toks, 0) IN
    IF r.st # "ok" THEN Unspec          \* the boundary expressions themselves are valid
    ELSE IF ~Untyped(r.c) \/ ~IsNum(r.c) THEN Illtyped
    ELSE IF ctx = "arraylen" THEN ArrLenOf(r)
    ELSE IF ctx = "shiftcount" THEN
        \* var x uint64 = 1; x << v: any count a uint holds is accepted; the value printed is 2^v mod 2^64
        IF r.c.class = "float" /\ ~FIsInt(r.c) THEN Reject(Why("truncated", "shiftcount", "uint", "untyped", ""))
        ELSE LET v == IntValue(r.c)
             IN IF v.neg THEN Reject(Why("negshift", "shiftcount", "uint", "untyped", ""))
                ELSE IF ~RepInt(v, "uint") THEN Reject(Why("overflow", "shiftcount", "uint", "untyped", "+big"))
                ELSE Ok(IntC("int", "uint64", IF Cmp(v, FromInt(64)) >= 0 THEN Zero ELSE Pow2(MSmall(v.mag))))
    ELSE LET v == From1(ConvNumTo(r.c, k, ctx, "untyped"), r)
             w == IF v.st = "reject" THEN [v EXCEPT !.why.root = RootKind(toks)] ELSE v
         IN AddTags(w, (IF ctx \in {"constdecl", "vardecl", "assign", "opassign"} THEN DeclTags(toks, k, 0) ELSE {})
                       \cup (IF IsIntCls(r.c) /\ ~RepInt(r.c.i, "int64") THEN {"src-beyond-int64"} ELSE {}))

-------------------------------------------------------------------------------
(* Const blocks.  A spec is [blank, impl, typ, toks]: blank name (_) or named, *)
(* implicit repetition or explicit [typ] = expression (typ "untyped" = none).  *)
(* iota is the index of the spec in the block, counted from 0, whatever the    *)
(* form of the spec.                                                           *)
(* A spec with TWO names (A, C [typ] = e1, e2  |  A, C  |  _, _) carries the second  *)
(* expression in toks2 (<<>>: one name); the two columns are independent of each     *)
(* other: each name takes the value of ITS expression with the spec's iota.          *)
Spec2(blank, impl, typ, toks, toks2) == [blank |-> blank, impl |-> impl, typ |-> typ, toks |-> toks, toks2 |-> toks2]
Spec(blank, impl, typ, toks) == Spec2(blank, impl, typ, toks, <<>>)
Col2(specs) == [j \in 1..Len(specs) |-> [specs[j] EXCEPT !.toks = specs[j].toks2]]
IsPairBlock(specs) == specs # <<>> /\ specs[1].toks2 # <<>>

\* the (typ, toks) in force at spec j
RECURSIVE Effective(_, _)
Effective(specs, j) == IF ~specs[j].impl \/ j = 1 THEN specs[j] ELSE Effective(specs, j - 1)

SpecValue(specs, j) ==
    LET e == Effective(specs, j)
        r == Eval(e.toks, j - 1)
    IN IF r.st # "ok" \/ e.typ = "untyped" THEN r
       ELSE IF ~Untyped(r.c) THEN (IF r.c.typ = e.typ THEN r ELSE Illtyped)
       ELSE IF e.typ \in NumKinds THEN
           (IF IsNum(r.c) THEN
                LET v == From1(ConvNumTo(r.c, e.typ, "constdecl", "untyped"), r)
                    w == IF v.st = "reject" THEN [v EXCEPT !.why.root = RootKind(e.toks)] ELSE v
                IN AddTags(w, DeclTags(e.toks, e.typ, j - 1))
            ELSE Illtyped)
       ELSE IF r.c.class = e.typ THEN Ok([r.c EXCEPT !.typ = e.typ]) ELSE Illtyped

BlockValues(specs) == [j \in 1..Len(specs) |-> SpecValue(specs, j)]
\* textual substitution of every implicit spec by the expression list it repeats
Explicate(specs) == [j \in 1..Len(specs) |->
                        LET e == Effective(specs, j) IN Spec2(specs[j].blank, FALSE, e.typ, e.toks, e.toks2)]
Trailer == <<Spec(FALSE, FALSE, "untyped", <<IotaT>>), Spec(FALSE, TRUE, "untyped", <<>>)>>
RECURSIVE WorstOf(_, _)
WorstOf(vals, j) == IF j = Len(vals) THEN vals[j] ELSE Worst(vals[j], WorstOf(vals, j + 1))

-------------------------------------------------------------------------------
(* What is handed to the harness.                                              *)
RECURSIVE MPow5(_)
MPow5(k) == IF k = 0 THEN <<1>> ELSE MMulSmall(MPow5(k - 1), 5)
\* decimal rendering of a numeric constant: digits and the number of them after the point
NumDec(c) ==
    IF c.class # "float" THEN [neg |-> c.i.neg, dig |-> MToDec(c.i.mag), point |-> 0]
    ELSE IF c.x >= 0 THEN [neg |-> c.i.neg, dig |-> MToDec(MShl(c.i.mag, c.x)), point |-> 0]
    ELSE [neg |-> c.i.neg, dig |-> MToDec(MMul(c.i.mag, MPow5(-c.x))), point |-> -c.x]

\* the type %T prints for the constant passed to an interface parameter, "" when
\* the untyped constant is not representable in its default type
PrintType(c) ==
    IF ~Untyped(c) THEN c.typ
    ELSE IF Representable(c, DefaultKind(c.class)) THEN DefaultKind(c.class) ELSE ""

OutConst(c) ==
    [class |-> c.class, typ |-> c.typ, num |-> IF IsNum(c) THEN NumDec(c) ELSE [neg |-> FALSE, dig |-> <<0>>, point |-> 0],
     str |-> c.s, b |-> c.b, ptype |-> PrintType(c),
     inexact |-> (Untyped(c) /\ IsNum(c) /\ ~ExactInDefault(c))]
OutRes(r) ==
    [st |-> r.st, lim |-> r.lim, inner |-> r.inner, c |-> OutConst(r.c), why |-> r.why, tags |-> r.tags, nrej |-> r.nrej]

\* (the table is a parameterless constant definition: evaluated once)
TabLits == {Lit("i", n) : n \in {0, 1, -1, 3, 10, 255}}
           \cup {Lit(o, k) : o \in {"p", "pm1", "pp1"}, k \in {7, 8, 15, 16, 24, 31, 32, 53, 63, 64, 100, 200}}
           \cup {Lit("r", 97)}
LitDecTab == [t \in TabLits |-> ToDec(LitValue(t.o, t.n).i)]
XDecTab == [n \in 1..Len(XVals) |-> ToDec(XVals[n])]
LitDec(t) == IF t \in TabLits THEN LitDecTab[t]
             ELSE IF t.o \in {"x", "xf"} THEN XDecTab[t.n]
             ELSE ToDec(LitValue(t.o, t.n).i)
\* decimal renderings of the integer literals of an expression, in order of appearance
RECURSIVE LitDecs(_)
LitDecs(toks) ==
    IF toks = <<>> THEN <<>>
    ELSE LET t == toks[1]
         IN (IF t.k = "lit" /\ t.o \in {"i", "p", "pm1", "pp1", "r", "x", "xf"} THEN <<LitDec(t)>> ELSE <<>>)
            \o LitDecs(Tail(toks))

Emitted(st) == st \in {"ok", "reject"}

-------------------------------------------------------------------------------
(* Generation domains.                                                         *)
PowKs == {7, 8, 15, 16, 31, 32, 63, 64, 100, 200}
SmallInts == {0, 1, -1, 3, 10, 255}
IntLits   == {Lit("i", n) : n \in SmallInts} \cup {Lit(o, k) : o \in {"p", "pm1", "pp1"}, k \in PowKs}
EscRunes  == {Lit("rx", 255), Lit("rx", 128), Lit("ro", 255), Lit("ro", 127), Lit("ru", 233), Lit("rc", 233), Lit("rc", 26412)}
OtherLits == {Lit("f", 1), Lit("f", 2), Lit("f", 3), Lit("r", 97), Lit("s", 1), Lit("b", 1), Lit("rx", 255), Lit("ro", 128)}
AllLits   == IntLits \cup OtherLits
\* reduced set for the two-level exhaustive tier
RedLits   == {Lit("i", 1), Lit("i", -1), Lit("i", 3), Lit("pm1", 7), Lit("p", 7), Lit("p", 8), Lit("p", 63),
              Lit("pm1", 64), Lit("p", 200), Lit("f", 2), Lit("r", 97)}
RedKinds  == {"int8", "uint8", "int32", "int64", "uint64", "float32", "float64"}

CONSTANTS Shapes,      \* E2: which shapes ("tt" typed o typed, "tu" typed o untyped, "ut" untyped o typed)
          Ops,         \* the operators this run enumerates (a subset of BinOps; "un" adds the unary,
                       \* conversion and len forms): several JVMs share an exhaustive tier
          Lits,        \* "all" | "red": literal set of the exhaustive expression tiers
          Kds,         \* "all" | "red" | "min": kinds of the typed leaves in the exhaustive tier E2 (and forms of the blocks)
          MaxSpecs     \* const blocks: number of specs

MidLits   == {Lit("i", 0), Lit("i", 1), Lit("i", -1), Lit("i", 3), Lit("i", 255), Lit("pm1", 7), Lit("p", 7), Lit("p", 8),
              Lit("p", 31), Lit("pm1", 32), Lit("pm1", 63), Lit("p", 63), Lit("pm1", 64), Lit("p", 64), Lit("pp1", 200),
              Lit("f", 2), Lit("f", 3), Lit("r", 97), Lit("s", 1), Lit("b", 1), Lit("rx", 255)}
LitSet == IF Lits = "all" THEN AllLits ELSE IF Lits = "mid" THEN MidLits ELSE RedLits

\* (the generating sets take a dummy argument: TLC evaluates every parameterless
\* constant-level definition at start-up, whether the cfg uses it or not)
\* one operator over literals
SelBin == BinOps \cap Ops
SelUn  == "un" \in Ops
E1Trees(z) ==
       {<<a, b, BinT(o)>> : a \in LitSet, b \in LitSet, o \in SelBin}
  \cup (IF ~SelUn THEN {} ELSE
           {<<a, UnT(o)>> : a \in LitSet, o \in UnOps}
      \cup {<<a, ConvT(k)>> : a \in LitSet, k \in Kinds}
      \cup {<<a, LenT>> : a \in LitSet} \cup {<<a, ArrLenT>> : a \in LitSet})

\* typed leaves T(a) and one operator over a typed leaf and a leaf (typed with the same
\* kind, or untyped), a unary operator or a conversion of a typed leaf
TypedLeaves(ks) == {<<a, ConvT(k)>> : a \in LitSet, k \in ks}
E2Trees(ks) ==
       (IF "tt" \in Shapes THEN {<<a, ConvT(k), b, ConvT(k), BinT(o)>> : a \in LitSet, b \in LitSet, k \in ks, o \in SelBin} ELSE {})
  \cup (IF "tu" \in Shapes THEN {<<a, ConvT(k), b, BinT(o)>> : a \in LitSet, b \in LitSet, k \in ks, o \in SelBin} ELSE {})
  \cup (IF "ut" \in Shapes THEN {<<b, a, ConvT(k), BinT(o)>> : a \in LitSet, b \in LitSet, k \in ks, o \in SelBin} ELSE {})
  \cup (IF ~SelUn THEN {} ELSE
           {<<a, ConvT(k), UnT(o)>> : a \in LitSet, k \in ks, o \in UnOps}
      \cup {<<a, ConvT(k), ConvT(k2)>> : a \in LitSet, k \in ks, k2 \in Kinds}
      \cup {<<a, ConvT("string"), LenT>> : a \in LitSet})

\* two operator levels over untyped leaves: (a o1 b) o2 c, c o2 (a o1 b), -(a o1 b), T(a o1 b)
E3Lits == {Lit("i", 1), Lit("i", -1), Lit("pm1", 7), Lit("p", 63), Lit("p", 200), Lit("f", 2)}
E3Trees(z) ==
       {<<a, b, BinT(o1), c, BinT(o2)>> : a \in E3Lits, b \in E3Lits, c \in E3Lits, o1 \in BinOps, o2 \in SelBin}
  \cup {<<c, a, b, BinT(o1), BinT(o2)>> : a \in E3Lits, b \in E3Lits, c \in E3Lits, o1 \in BinOps, o2 \in SelBin}
  \cup (IF ~SelUn THEN {} ELSE
           {<<a, b, BinT(o1), UnT(o2)>> : a \in E3Lits, b \in E3Lits, o1 \in BinOps, o2 \in UnOps}
      \cup {<<a, b, BinT(o1), ConvT(k)>> : a \in E3Lits, b \in E3Lits, o1 \in BinOps, k \in Kinds})

\* use contexts: boundary values per kind
Ctxs == {"constdecl", "vardecl", "assign", "opassign", "callarg", "return", "elem-slice", "elem-array",
         "elem-mapkey", "elem-mapval", "elem-struct", "binop-var", "cmp-var"}
\* contexts of the directed float-rounding literals: those through which an untyped constant
\* reaches a float type (conv is the explicit conversion T(c))
RoundCtxs == {"conv", "constdecl", "vardecl", "assign", "callarg", "return", "elem-slice", "elem-struct", "binop-var"}
RoundToks ==
       {<<Lit("x", n)>> : n \in XIntIdx} \cup {<<Lit("xf", n)>> : n \in 1..Len(XVals)}
  \cup { \* 1 + 2^-24 + 2^-60 (just above the midpoint of 1 and 1 + 2^-23) and its float64 analogue
         <<Lit("i", 1), Lit("f", 1), Lit("p", 24), BinT("/"), BinT("+"), Lit("f", 1), Lit("p", 60), BinT("/"), BinT("+")>>,
         <<Lit("i", 1), Lit("f", 1), Lit("p", 53), BinT("/"), BinT("+"), Lit("f", 1), Lit("p", 100), BinT("/"), BinT("+")>>,
         \* 1<<128 - 1<<103 - 1 (rounds to MaxFloat32) and 1<<128 - 1<<103 (overflows float32)
         <<Lit("p", 128), Lit("p", 103), BinT("-"), Lit("i", 1), BinT("-")>>,
         <<Lit("p", 128), Lit("p", 103), BinT("-")>> }
\* boundary expressions for a kind of width w: literal families of the model
BoundaryToks(k) ==
    LET w == Width(k)
        s == k \in SignedKinds
        h == IF s THEN w - 1 ELSE w
        neg(t) == <<t, UnT("-")>>
    IN { <<Lit("i", 0)>>, <<Lit("i", 1)>>, <<Lit("i", -1)>>, <<Lit("i", 3)>>,
         <<Lit("pm1", h)>>, <<Lit("p", h)>>, <<Lit("pp1", h)>>,              \* max, max+1, max+2
         neg(Lit("pm1", h)), neg(Lit("p", h)), neg(Lit("pp1", h)),          \* -max, -(max+1) (= min if signed), -(max+2)
         <<Lit("pm1", w)>>, <<Lit("p", w)>>, neg(Lit("pm1", w)), neg(Lit("p", w)),   \* 2^w-1, 2^w and their negations
         <<Lit("p", 100)>>,
         <<Lit("f", 1)>>, <<Lit("f", 2)>>, <<Lit("r", 97)>>,
         <<Lit("rx", 255)>>, <<Lit("rx", 128)>>, <<Lit("ro", 255)>>, <<Lit("ro", 127)>>, <<Lit("ru", 233)>>, <<Lit("rc", 233)>>, <<Lit("rc", 26412)>>,
         <<Lit("rx", 128), Lit("i", 1), BinT("-")>>, <<Lit("ro", 255), Lit("i", 1), BinT("+")>>,
         <<Lit("pm1", h), Lit("f", 1), BinT("*")>>,                          \* max as an untyped float
         <<Lit("p", h), Lit("f", 1), BinT("*")>> }                           \* max+1 as an untyped float
FloatBoundaryToks(k) ==
    LET e == EMax(k) p == Prec(k) IN
    { <<Lit("i", 0)>>, <<Lit("i", 1)>>, <<Lit("f", 2)>>, <<Lit("f", 3)>>,
      <<Lit("pp1", p)>>,                                                      \* 2^p + 1: rounds to 2^p
      <<Lit("p", p), Lit("i", 3), BinT("+")>>,                               \* 2^p + 3: rounds to 2^p + 4
      <<Lit("p", 100)>>, <<Lit("p", 200)>>, <<Lit("pp1", 100)>>,
      <<Lit("p", 100), Lit("p", 100), BinT("*"), Lit("f", 1), BinT("*")>> }  \* 2^200 as float
ArrayLenToks == { <<Lit("i", 0)>>, <<Lit("i", 1)>>, <<Lit("i", 3)>>, <<Lit("i", -1)>>, <<Lit("i", 255)>>,
                  <<Lit("f", 1)>>, <<Lit("f", 2)>>, <<Lit("f", 3)>>, <<Lit("r", 97)>>,
                  <<Lit("p", 16)>>, <<Lit("p", 63)>>, <<Lit("p", 64)>>, <<Lit("p", 200)>>,
                  <<Lit("p", 63), UnT("-")>>, <<Lit("i", 3), Lit("f", 2), BinT("*")>>,
                  <<Lit("i", 10), Lit("f", 2), BinT("*")>> }
ShiftCountToks == { <<Lit("i", 0)>>, <<Lit("i", 1)>>, <<Lit("i", 3)>>, <<Lit("i", -1)>>, <<Lit("i", 255)>>,
                    <<Lit("pm1", 7)>>, <<Lit("p", 7)>>, <<Lit("p", 31)>>, <<Lit("p", 32)>>, <<Lit("p", 63)>>,
                    <<Lit("pm1", 64)>>, <<Lit("p", 64)>>, <<Lit("p", 100)>>, <<Lit("p", 63), UnT("-")>>,
                    <<Lit("f", 1)>>, <<Lit("f", 2)>>, <<Lit("f", 3)>>, <<Lit("r", 97)>>,
                    <<Lit("i", 3), Lit("f", 2), BinT("*")>>, <<Lit("i", 10), Lit("f", 2), BinT("*")>> }

\* constant arithmetic whose OPERANDS are far beyond every machine type and whose results are small
H(n) == Lit("h", n)
HugeTrees ==
    { <<H(5000), H(4990), BinT("/")>>,                                   \* 1024.0
      <<H(5000), H(-4995), BinT("*")>>,                                  \* 32.0
      <<H(-5000), H(-4990), BinT("/")>>,                                 \* 2^-10
      <<H(5000), UnT("-"), H(4990), BinT("/")>>,                         \* -1024.0
      <<H(5000), H(4999), BinT("-"), H(4990), BinT("/")>>,               \* 512.0
      <<H(5000), H(5000), BinT("-")>>,                                   \* 0.0
      <<H(5000), H(4998), BinT("/"), ConvT("int")>>,                     \* int 4
      <<H(5000), H(4998), BinT("/"), ConvT("uint8")>>,
      <<H(5000), H(4990), BinT("/"), ConvT("float32")>>,
      <<H(5000), H(4999), BinT("/"), Lit("i", 2), BinT("==")>>,          \* true
      <<H(5000), H(4990), BinT("<")>>,                                   \* false
      <<H(-5000), Lit("f", 2), BinT("<")>>,                              \* true
      <<H(-5000), H(4999), BinT("*"), Lit("f", 2), BinT("==")>>,         \* true
      <<H(5000), ConvT("float64")>>,                                     \* overflows
      <<H(5000), ConvT("int")>>,                                         \* overflows
      <<H(-5000), ConvT("float64")>>,                                    \* underflows to 0
      <<H(5000), H(4990), BinT("/"), Lit("i", 3), BinT("+")>>,           \* 1027.0
      <<Lit("i", 3), H(-5000), H(4999), BinT("*"), BinT("*")>> }         \* 1.5
HugeUseToks == { <<H(5000), H(4990), BinT("/")>>, <<H(5000), H(-4995), BinT("*")>>, <<H(-5000), H(4999), BinT("*")>>,
                 <<H(5000), UnT("-"), H(4990), BinT("/")>>, <<H(5000)>>, <<H(-5000)>> }

UseCase(ctx, k, toks) == [tier |-> "use", ctx |-> ctx, kind |-> k, toks |-> toks, specs |-> <<>>, place |-> ""]
ExprCase(toks)        == [tier |-> "expr", ctx |-> "", kind |-> "", toks |-> toks, specs |-> <<>>, place |-> ""]
BlockCase(specs, pl)  == [tier |-> "block", ctx |-> "", kind |-> "", toks |-> <<>>, specs |-> specs, place |-> pl]

UseCasesAll(z) ==
       UNION {{UseCase(ctx, k, t) : ctx \in Ctxs, t \in BoundaryToks(k)} : k \in IntKinds}
  \cup UNION {{UseCase(ctx, k, t) : ctx \in Ctxs, t \in FloatBoundaryToks(k)} : k \in FloatKinds}
  \cup {UseCase(ctx, k, t) : ctx \in RoundCtxs, k \in FloatKinds, t \in RoundToks}
  \cup {UseCase("conv", k, t) : k \in IntKinds, t \in BoundaryToks("int8") \cup BoundaryToks("uint64")}
  \cup {UseCase(ctx, k, t) : ctx \in RoundCtxs, k \in {"float32", "float64", "int", "uint8"}, t \in HugeUseToks}
  \cup {UseCase("arraylen", "int", t) : t \in ArrayLenToks}
  \cup {UseCase("shiftcount", "uint", t) : t \in ShiftCountToks}

\* const blocks
FormToks(f, a, b) ==
    CASE f = "iota"  -> <<IotaT>>
      [] f = "shl"   -> <<Lit("i", 1), IotaT, BinT("<<")>>                        \* 1 << iota
      [] f = "shl10" -> <<Lit("i", 1), Lit("i", 10), IotaT, BinT("*"), BinT("<<")>>  \* 1 << (10 * iota)
      [] f = "lin"   -> <<IotaT, Lit("i", a), BinT("*"), Lit("i", b), BinT("+")>>  \* iota*a + b
      [] f = "neg"   -> <<IotaT, UnT("-")>>
      [] f = "lit"   -> <<Lit("i", a)>>
      [] f = "flt"   -> <<IotaT, Lit("f", 2), BinT("*")>>                         \* iota * 0.5
      [] f = "rune"  -> <<Lit("r", 97), IotaT, BinT("+")>>                        \* 'a' + iota
      [] f = "conv8" -> <<IotaT, Lit("i", a), BinT("*"), ConvT("int8")>>          \* int8(iota*a)
      [] f = "convu" -> <<IotaT, Lit("i", a), BinT("*"), ConvT("uint8")>>
      [] f = "fwd"   -> <<IotaT, FwdT, BinT("+")>>                               \* iota + FwdZ
      [] f = "fwdl"  -> <<FwdT, IotaT, BinT("*")>>                               \* FwdZ * iota
Forms == {FormToks("iota", 0, 0), FormToks("shl", 0, 0), FormToks("shl10", 0, 0), FormToks("lin", 3, 1),
          FormToks("lin", 50, -1), FormToks("neg", 0, 0), FormToks("lit", 10, 0), FormToks("flt", 0, 0),
          FormToks("rune", 0, 0), FormToks("conv8", 50, 0), FormToks("convu", 1, 0)}
RedForms == {FormToks("iota", 0, 0), FormToks("shl", 0, 0), FormToks("lin", 50, -1), FormToks("conv8", 50, 0)}
MinForms == {FormToks("iota", 0, 0), FormToks("shl", 0, 0), FormToks("lin", 50, -1)}
BlockTyps == {"untyped", "int8", "uint8", "int", "float64"}
RedTyps   == {"untyped", "int8"}
Explicits(fs, ts) == {Spec(bl, FALSE, t, f) : bl \in BOOLEAN, t \in ts, f \in fs}
Implicits == {Spec(bl, TRUE, "untyped", <<>>) : bl \in BOOLEAN}
BlocksOf(n, fs, ts) ==
    {<<h>> \o tl : h \in {s \in Explicits(fs, ts) : ~s.blank}, tl \in [1..(n - 1) -> Explicits(fs, ts) \cup Implicits]}
\* blocks whose expressions refer to a constant declared after them (the value of iota must not depend on
\* WHEN the spec is evaluated), and blocks of two-name specs with implicit repetition of the whole expression list
\* (held back - FALSE - until the repair of iota as a running counter and of the implicit repetition of
\* two-name specs is in /repo: F-C03-12)
ExtraBlocksOn == TRUE
FwdForms == {FormToks("fwd", 0, 0), FormToks("fwdl", 0, 0), FormToks("iota", 0, 0)}
FwdBlocks ==
    {<<Spec(FALSE, FALSE, t, h)>> \o tl : t \in RedTyps, h \in FwdForms \ {FormToks("iota", 0, 0)},
        tl \in [1..2 -> {Spec(FALSE, FALSE, "untyped", f) : f \in FwdForms} \cup Implicits]}
PairForms == {<<FormToks("iota", 0, 0), FormToks("lin", 50, -1)>>, <<FormToks("shl", 0, 0), FormToks("iota", 0, 0)>>,
              <<FormToks("lin", 3, 1), FormToks("fwd", 0, 0)>>}
PairTail == {Spec2(FALSE, FALSE, "untyped", pf[1], pf[2]) : pf \in PairForms}
            \cup {Spec2(bl, TRUE, "untyped", <<>>, <<>>) : bl \in BOOLEAN}
PairBlocks ==
    {<<Spec2(FALSE, FALSE, t, pf[1], pf[2])>> \o tl : t \in RedTyps, pf \in PairForms, tl \in [1..2 -> PairTail]}
BlockCases(z) ==
    UNION {{BlockCase(b, pl) : b \in BlocksOf(n, IF Kds = "min" THEN MinForms ELSE RedForms, RedTyps), pl \in {"pkg", "func"}} : n \in 1..MaxSpecs}
    \cup (IF ExtraBlocksOn THEN {BlockCase(b, pl) : b \in FwdBlocks \cup PairBlocks, pl \in {"pkg", "func"}} ELSE {})

-------------------------------------------------------------------------------
VARIABLES case, res
vars == <<case, res>>

Pending == [st |-> "?", c |-> Dummy, why |-> NoWhy, tags |-> {}, nrej |-> 0, lim |-> FALSE, inner |-> FALSE]

Verdict(cs) ==
    CASE cs.tier = "expr"  -> Eval(cs.toks, 0)
      [] cs.tier = "use"   -> UseVerdict(cs.ctx, cs.kind, cs.toks)
      [] cs.tier = "block" -> IF IsPairBlock(cs.specs) THEN Worst(WorstOf(BlockValues(cs.specs), 1), WorstOf(BlockValues(Col2(cs.specs)), 1))
                              ELSE WorstOf(BlockValues(cs.specs), 1)

InitE1     == case \in {ExprCase(t) : t \in E1Trees(Lits)} /\ res = Pending
MinKinds   == {"int8", "uint8", "int64", "float32"}
InitE2     == case \in {ExprCase(t) : t \in E2Trees(IF Kds = "all" THEN Kinds ELSE IF Kds = "min" THEN MinKinds ELSE RedKinds)} /\ res = Pending
InitE3     == case \in {ExprCase(t) : t \in E3Trees(Lits)} /\ res = Pending
RuneTrees == {<<a>> : a \in EscRunes}
             \cup {<<a, Lit("i", n), BinT(o)>> : a \in EscRunes, n \in {1, 255}, o \in {"+", "==", "<", "<<", "&"}}
             \cup {<<a, ConvT(k)>> : a \in EscRunes, k \in {"uint8", "int8", "int32", "string", "float64"}}
             \cup {<<a, ArrLenT>> : a \in {Lit("rx", 128), Lit("ro", 255)}}
\* the minimum of a signed type against -1: T(min) / -1 and T(min) * -1 are the constant 2^(w-1), which T cannot hold
\* (the only quotient of two values of T that overflows T); T(min) % -1 is 0; -T(min) overflows. The divisor typed or
\* not, on either side of the product. (int64 and int are left out of the QUOTIENT: go/constant computes
\* MinInt64 / -1 in int64 arithmetic, which wraps around, and the toolchain accepts it - its quirk, not the language's.)
MinOf(k) == <<Lit("p", Width(k) - 1), UnT("-"), ConvT(k)>>
MinQuoTrees ==
       UNION {{MinOf(k) \o <<Lit("i", -1), BinT(o)>>, MinOf(k) \o <<Lit("i", -1), ConvT(k), BinT(o)>>,
               MinOf(k) \o <<Lit("i", 1), BinT(o)>>, MinOf(k) \o <<Lit("i", 2), BinT(o)>>} :
                  k \in {"int8", "int16", "int32"}, o \in {"/", "%"}}
  \cup UNION {{MinOf(k) \o <<Lit("i", -1), BinT("*")>>, <<Lit("i", -1)>> \o MinOf(k) \o <<BinT("*")>>,
               MinOf(k) \o <<Lit("i", -1), ConvT(k), BinT("*")>>, MinOf(k) \o <<UnT("-")>>,
               MinOf(k) \o <<Lit("i", 1), BinT("-")>>} :
                  k \in {"int8", "int16", "int32", "int64"}}
InitUse    == case \in UseCasesAll(Lits) \cup {ExprCase(t) : t \in HugeTrees \cup RuneTrees \cup MinQuoTrees} /\ res = Pending
InitBlocks == case \in BlockCases(Lits) /\ res = Pending
Decide     == res.st = "?" /\ res' = Verdict(case) /\ UNCHANGED case

SpecE1     == InitE1 /\ [][Decide]_vars
SpecE2     == InitE2 /\ [][Decide]_vars
SpecE3     == InitE3 /\ [][Decide]_vars
SpecUse    == InitUse /\ [][Decide]_vars
SpecBlocks == InitBlocks /\ [][Decide]_vars

-------------------------------------------------------------------------------
(* Seeded simulation: random trees to depth 3-4 over all literals, every       *)
(* operator, every conversion; random blocks of up to 6 specs.                 *)
(* Every Rand* operator takes a dummy argument (a parameterless definition     *)
(* would be evaluated once).  goal: "num" | "str" | "bool"; pk: a preferred    *)
(* kind that most conversions of the tree use, so that typed operands match.   *)
Pick(seq) == seq[RandomElement(1..Len(seq))]
RandLit(goal, z) ==
    CASE goal = "num" -> RandomElement(IntLits \cup {Lit("f", 1), Lit("f", 2), Lit("f", 3), Lit("r", 97)} \cup EscRunes)
      [] goal = "str" -> Lit("s", 1)
      [] OTHER        -> Lit("b", 1)
RandKind(pk, z) == IF RandomElement(1..4) > 1 THEN pk ELSE RandomElement(NumKinds)

RECURSIVE RandExpr(_, _, _, _)
RandExpr(goal, d, pk, z) ==
    IF d = 0 THEN <<RandLit(goal, z)>>
    ELSE IF goal = "num" THEN
        LET k == Pick(<<"lit", "un", "bin", "bin", "bin", "shift", "conv", "conv", "len", "arrlen0">>) IN
        CASE k = "lit"   -> <<RandLit(goal, z)>>
          [] k = "un"    -> RandExpr("num", d - 1, pk, z) \o <<UnT(Pick(<<"+", "-", "-", "^">>))>>
          [] k = "bin"   -> RandExpr("num", d - 1, pk, z) \o RandExpr("num", d - 1, pk, z) \o <<BinT(RandomElement(ArithOps))>>
          [] k = "shift" -> RandExpr("num", d - 1, pk, z)
                            \o (IF RandomElement(1..3) = 1 THEN RandExpr("num", d - 1, pk, z)
                                ELSE <<Lit("i", RandomElement({0, 1, 3, 10}))>>)
                            \o <<BinT(RandomElement(ShiftOps))>>
          [] k = "conv"  -> RandExpr("num", d - 1, pk, z) \o <<ConvT(RandKind(pk, z))>>
          [] k = "len"   -> RandExpr("str", d - 1, pk, z) \o <<LenT>>
          [] OTHER       -> <<Lit("i", RandomElement({0, 1, 3, 10, 255})), ArrLenT>>
    ELSE IF goal = "str" THEN
        LET k == Pick(<<"lit", "cat", "conv", "convs">>) IN
        CASE k = "lit"   -> <<Lit("s", 1)>>
          [] k = "cat"   -> RandExpr("str", d - 1, pk, z) \o RandExpr("str", d - 1, pk, z) \o <<BinT("+")>>
          [] k = "conv"  -> RandExpr("num", d - 1, pk, z) \o <<ConvT("string")>>
          [] OTHER       -> RandExpr("str", d - 1, pk, z) \o <<ConvT("string")>>
    ELSE
        LET k == Pick(<<"lit", "not", "logic", "cmp", "cmp", "cmps", "conv">>) IN
        CASE k = "lit"   -> <<Lit("b", 1)>>
          [] k = "not"   -> RandExpr("bool", d - 1, pk, z) \o <<UnT("!")>>
          [] k = "logic" -> RandExpr("bool", d - 1, pk, z) \o RandExpr("bool", d - 1, pk, z) \o <<BinT(RandomElement(LogicOps))>>
          [] k = "cmp"   -> RandExpr("num", d - 1, pk, z) \o RandExpr("num", d - 1, pk, z) \o <<BinT(RandomElement(CmpOps))>>
          [] k = "cmps"  -> RandExpr("str", d - 1, pk, z) \o RandExpr("str", d - 1, pk, z) \o <<BinT(RandomElement(CmpOps))>>
          [] OTHER       -> RandExpr("bool", d - 1, pk, z) \o <<ConvT("bool")>>

RandSpec(first, z) ==
    IF ~first /\ RandomElement(1..2) = 1 THEN Spec(RandomElement(1..5) = 1, TRUE, "untyped", <<>>)
    ELSE Spec(~first /\ RandomElement(1..6) = 1, FALSE,
              Pick(<<"untyped", "untyped", "untyped", "untyped", "int8", "uint8", "int", "float64">>), RandomElement(Forms))
RandBlock(z) ==
    LET n == RandomElement(2..6) IN [j \in 1..n |-> RandSpec(j = 1, z)]

RandCase(z) ==
    IF RandomElement(1..8) = 1 THEN BlockCase(RandBlock(z), RandomElement({"pkg", "func"}))
    ELSE ExprCase(RandExpr(Pick(<<"num", "num", "num", "bool", "bool", "str">>),
                           Pick(<<2, 3, 3, 4>>), RandomElement(NumKinds), z))

InitSim == case = ExprCase(<<Lit("i", 0)>>) /\ res = Pending
NextSim == case' = RandCase(case) /\ res' = Verdict(case')
SpecSim == InitSim /\ [][NextSim]_vars

-------------------------------------------------------------------------------
(* What TLC checks on the model itself (on the values every case produces).    *)
Decided == res.st # "?"
ValueInt == Decided /\ res.st = "ok" /\ IsNum(res.c) /\ (res.c.class = "float" => FIsInt(res.c))

\* representability is monotone in the width (chains of next-wider kinds of one signedness;
\* int/uint/uintptr are the 64-bit kinds)
NextWider == {<<"int8", "int16">>, <<"int16", "int32">>, <<"int32", "int64">>, <<"int64", "int">>, <<"int", "int64">>,
              <<"uint8", "uint16">>, <<"uint16", "uint32">>, <<"uint32", "uint64">>, <<"uint64", "uint">>,
              <<"uint", "uintptr">>, <<"uintptr", "uint64">>,
              <<"uint8", "int16">>, <<"uint16", "int32">>, <<"uint32", "int64">>}
RepMonotone ==
    ValueInt => \A p \in NextWider : Representable(res.c, p[1]) => Representable(res.c, p[2])
\* a value fits a kind exactly when storing it in a machine integer of that kind returns it
TruncOf(v, k) == IF k \in SignedKinds THEN TruncS(v, Width(k)) ELSE TruncU(v, Width(k))
RepIsTruncFixpoint ==
    ValueInt => \A k \in IntKinds : Representable(res.c, k) <=> (TruncOf(IntValue(res.c), k) = IntValue(res.c))
\* a typed result is representable in its type; an untyped one respects the bounds
TypedFits ==
    (Decided /\ res.st = "ok" /\ res.c.typ \in NumKinds) => Representable(res.c, res.c.typ)
\* rounding is idempotent
RoundIdem ==
    (Decided /\ res.st = "ok" /\ res.c.typ \in FloatKinds) => ExactIn(res.c, res.c.typ)

\* operands of a one-operator case
Opnd(j) == LitValue(case.toks[j].o, case.toks[j].n)
\* (each law is checked once per pair of integer literals: on the case of one operator)
IsBin(o) == Decided /\ case.tier = "expr" /\ Len(case.toks) = 3 /\ case.toks[1].k = "lit" /\ case.toks[2].k = "lit"
            /\ case.toks[3].o = o /\ IsIntCls(Opnd(1)) /\ IsIntCls(Opnd(2))
DivModIdentity ==
    (IsBin("/") /\ ~IsZero(Opnd(2).i)) =>
        LET a == Opnd(1).i b == Opnd(2).i q == Quo(a, b) r == Rem(a, b)
        IN /\ Add(Mul(q, b), r) = a
           /\ MCmp(r.mag, b.mag) < 0
           /\ (IsZero(r) \/ r.neg = a.neg)
BitIdentities ==
    IsBin("&") =>
        LET a == Opnd(1).i b == Opnd(2).i
        IN /\ Add(BAnd(a, b), BOr(a, b)) = Add(a, b)
           /\ BXor(a, b) = Sub(BOr(a, b), BAnd(a, b))
           /\ BAndNot(a, b) = Sub(a, BAnd(a, b))
           /\ BNot(BNot(a)) = a
           /\ Neg(a) = Succ(BNot(a))
           /\ FromDec(ToDec(a)) = a
ShiftIdentities ==
    (IsBin("<<") /\ ~Opnd(2).i.neg /\ Cmp(Opnd(2).i, FromInt(300)) <= 0) =>
        LET a == Opnd(1).i n == MSmall(Opnd(2).i.mag)
        IN /\ Shr(Shl(a, n), n) = a
           /\ Shl(a, n) = Mul(a, Pow2(n))
           /\ Le(Shl(Shr(a, n), n), a) /\ Lt(a, Shl(Succ(Shr(a, n)), n))    \* floor
\* comparison is a total order consistent with subtraction
OrderIdentities ==
    IsBin("<") => LET a == Opnd(1).i b == Opnd(2).i IN Cmp(a, b) = Sign(Sub(a, b)) /\ Cmp(a, b) = -Cmp(b, a)

\* const blocks: iota of the j-th spec is j-1 whatever the form, and implicit
\* repetition is textual substitution
IsBlock == Decided /\ case.tier = "block"
IotaIsIndex ==
    IsBlock => \A j \in 1..Len(case.specs) :
        LET e == Effective(case.specs, j)
        IN (e.toks = <<IotaT>> /\ e.typ = "untyped") =>
               LET v == SpecValue(case.specs, j) IN v.st = "ok" /\ v.c.i = FromInt(j - 1)
\* iota does not depend on what precedes the block: the trailer block counts from 0
IotaRestarts ==
    IsBlock => \A j \in 1..2 : LET v == SpecValue(Trailer, j) IN v.st = "ok" /\ v.c.i = FromInt(j - 1)
ImplicitIsTextual ==
    IsBlock => /\ BlockValues(case.specs) = BlockValues(Explicate(case.specs))
               /\ (IsPairBlock(case.specs) => BlockValues(Col2(case.specs)) = BlockValues(Col2(Explicate(case.specs))))
\* inserting a blank spec in front of the tail shifts iota by one for what follows
BlankStillCounts ==
    IsBlock => \A j \in 1..Len(case.specs) :
        (case.specs[j].blank /\ j < Len(case.specs)) =>
            SpecValue(case.specs, j + 1) = SpecValue([i \in 1..Len(case.specs) |-> IF i = j THEN [case.specs[j] EXCEPT !.blank = FALSE] ELSE case.specs[i]], j + 1)

-------------------------------------------------------------------------------
\* behaviours are handed to the harness from an always-true invariant
OutCase ==
    [tier |-> case.tier, ctx |-> case.ctx, kind |-> case.kind, toks |-> case.toks, lits |-> LitDecs(case.toks),
     place |-> case.place,
     specs |-> [j \in 1..Len(case.specs) |->
                  [blank |-> case.specs[j].blank, impl |-> case.specs[j].impl, typ |-> case.specs[j].typ,
                   toks |-> case.specs[j].toks, lits |-> LitDecs(case.specs[j].toks),
                   toks2 |-> case.specs[j].toks2, lits2 |-> LitDecs(case.specs[j].toks2)]],
     vals |-> IF case.tier = "block" THEN [j \in 1..Len(case.specs) |-> OutRes(SpecValue(case.specs, j))] ELSE <<>>,
     vals2 |-> IF case.tier = "block" /\ IsPairBlock(case.specs)
               THEN [j \in 1..Len(case.specs) |-> OutRes(SpecValue(Col2(case.specs), j))] ELSE <<>>,
     \* every block is followed by the block  const ( B0 = iota; B1 ): iota starts again at 0
     trail |-> IF case.tier = "block" THEN [j \in 1..2 |-> OutRes(SpecValue(Trailer, j))] ELSE <<>>,
     res |-> OutRes(res)]
\* a rejection is emitted when the rejecting operation is the outermost one (its operands are valid
\* constants); what an implementation does with an operator over an invalid operand is noise
Emit == (Decided /\ Emitted(res.st) /\ ~(case.tier = "expr" /\ res.st = "reject" /\ res.inner)) => PrintT(<<"BEH", ToJson(OutCase)>>)
===============================================================================
