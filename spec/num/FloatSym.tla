------------------------------ MODULE FloatSym ------------------------------
(* C02 - floating-point and complex operators: IEEE 754 binary32 / binary64    *)
(* arithmetic with round-to-nearest-even, specified exactly.                   *)
(*                                                                             *)
(* TLC has no reals.  A float is NaN, +-Inf, +-0 or a dyadic rational          *)
(* (-1)^s * m * 2^e, where m is an odd natural number of ANY size kept as a    *)
(* magnitude of BigInt.tla (little-endian limbs of 15 bits).  Every operator   *)
(* computes the exact result as a dyadic (for the quotient: enough quotient    *)
(* bits plus a sticky bit) and rounds it ONCE to the format: nearest, ties to  *)
(* even, gradual underflow, overflow to infinity.  Special values follow the   *)
(* IEEE table (NaN propagation, Inf - Inf, 0 * Inf, x / 0, signs of zeros,     *)
(* comparisons with NaN, -0 = +0).  The name FloatSym is historical: the first *)
(* version specified only results that need no rounding ("Unspec" otherwise);  *)
(* Unspec remains for what the language leaves to the implementation.          *)
(* Complex numbers are pairs; multiplication and division follow the formulas  *)
(* the Go compiler and runtime use (intermediates in float64, one conversion   *)
(* to the format at the end).                                                  *)
EXTENDS BV
BN == INSTANCE BigInt

NaN       == [c |-> "nan",    s |-> 0, m |-> <<>>, e |-> 0]
Inf(s)    == [c |-> "inf",    s |-> s, m |-> <<>>, e |-> 0]
Zr(s)     == [c |-> "zero",   s |-> s, m |-> <<>>, e |-> 0]
Unspec    == [c |-> "unspec", s |-> 0, m |-> <<>>, e |-> 0]
FinM(s, m, e) == [c |-> "fin", s |-> s, m |-> m, e |-> e]             \* m an odd magnitude
Fin(s, n, e)  == FinM(s, BN!MFromNat(n), e)                            \* n an odd natural below 2^30

\* p: precision; emin: exponent of the smallest subnormal (the smallest quantum); every finite
\* value is below 2^emax
F32 == [name |-> "float32", p |-> 24, emin |-> -149,  emax |-> 128]
F64 == [name |-> "float64", p |-> 53, emin |-> -1074, emax |-> 1024]
Formats == {F32, F64}

Flip(s) == 1 - s
SX(s, t) == IF s = t THEN 0 ELSE 1
MaxI(a, b) == IF a > b THEN a ELSE b
MinI(a, b) == IF a < b THEN a ELSE b

\* (-1)^s * m * 2^e with m any non-zero magnitude, in normal form (m odd)
NormM(s, m, e) == LET tz == BN!MTz(m) IN FinM(s, BN!MShr(m, tz), e + tz)

\* THE rounding step: the float of format F nearest to (-1)^s * m * 2^e (m any magnitude),
\* ties to the even neighbour; the quantum is 2^q with q = max(top - p, emin)
Round(F, s, m, e) ==
    IF m = <<>> THEN Zr(s)
    ELSE LET top == e + BN!MBitLen(m)                      \* 2^(top-1) <= |x| < 2^top
             q   == MaxI(top - F.p, F.emin)
         IN IF e >= q THEN (IF top > F.emax THEN Inf(s) ELSE NormM(s, m, e))
            ELSE LET d    == q - e                         \* bits below the quantum
                     m0   == BN!MShr(m, d)
                     c    == BN!MCmp(BN!MLow(m, d), BN!MPow2(d - 1))
                     up   == c > 0 \/ (c = 0 /\ BN!Limb(m0, 1) % 2 = 1)
                     m1   == IF up THEN BN!MAdd(m0, <<1>>) ELSE m0
                 IN IF m1 = <<>> THEN Zr(s)
                    ELSE IF q + BN!MBitLen(m1) > F.emax THEN Inf(s)
                    ELSE NormM(s, m1, q)
\* the result is exact (no rounding took place) - used by the sanity invariants
Exact(F, x) == x.c # "fin" \/ Round(F, x.s, x.m, x.e) = x
InFormat(F, x) == x.c # "unspec" /\ Exact(F, x)
Result(F, s, n, e) == Round(F, s, BN!MFromNat(n), e)

NegF(x) == IF x.c \in {"nan", "unspec"} THEN x ELSE [x EXCEPT !.s = Flip(x.s)]

AddF(F, x, y) ==
    IF x.c = "unspec" \/ y.c = "unspec" THEN Unspec
    ELSE IF x.c = "nan" \/ y.c = "nan" THEN NaN
    ELSE IF x.c = "inf" THEN (IF y.c = "inf" /\ y.s # x.s THEN NaN ELSE x)
    ELSE IF y.c = "inf" THEN y
    ELSE IF x.c = "zero" /\ y.c = "zero" THEN (IF x.s = y.s THEN x ELSE Zr(0))
    ELSE IF x.c = "zero" THEN y
    ELSE IF y.c = "zero" THEN x
    ELSE LET e  == MinI(x.e, y.e)
             ax == BN!MShl(x.m, x.e - e)
             ay == BN!MShl(y.m, y.e - e)
         IN IF x.s = y.s THEN Round(F, x.s, BN!MAdd(ax, ay), e)
            ELSE LET c == BN!MCmp(ax, ay) IN
                 IF c = 0 THEN Zr(0)                               \* exact zero sum: +0
                 ELSE IF c > 0 THEN Round(F, x.s, BN!MSub(ax, ay), e)
                 ELSE Round(F, y.s, BN!MSub(ay, ax), e)
SubF(F, x, y) == AddF(F, x, NegF(y))

MulF(F, x, y) ==
    IF x.c = "unspec" \/ y.c = "unspec" THEN Unspec
    ELSE IF x.c = "nan" \/ y.c = "nan" THEN NaN
    ELSE IF (x.c = "inf" /\ y.c = "zero") \/ (x.c = "zero" /\ y.c = "inf") THEN NaN
    ELSE IF x.c = "inf" \/ y.c = "inf" THEN Inf(SX(x.s, y.s))
    ELSE IF x.c = "zero" \/ y.c = "zero" THEN Zr(SX(x.s, y.s))
    ELSE Round(F, SX(x.s, y.s), BN!MMul(x.m, y.m), x.e + y.e)

\* x / y = (mx / my) * 2^(ex - ey).  The quotient of the magnitudes is computed to F.p + 3 bits
\* at least, and a sticky bit (is the division inexact) is appended below them: rounding the
\* result to at most F.p bits then gives the correctly rounded quotient.
QuoF(F, x, y) ==
    IF x.c = "unspec" \/ y.c = "unspec" THEN Unspec
    ELSE IF x.c = "nan" \/ y.c = "nan" THEN NaN
    ELSE IF (x.c = "inf" /\ y.c = "inf") \/ (x.c = "zero" /\ y.c = "zero") THEN NaN
    ELSE IF x.c = "inf" THEN Inf(SX(x.s, y.s))
    ELSE IF y.c = "inf" THEN Zr(SX(x.s, y.s))
    ELSE IF y.c = "zero" THEN Inf(SX(x.s, y.s))                 \* finite non-zero / 0
    ELSE IF x.c = "zero" THEN Zr(SX(x.s, y.s))
    ELSE LET k  == MaxI(0, F.p + 3 + BN!MBitLen(y.m) - BN!MBitLen(x.m))
             qr == BN!MDivMod(BN!MShl(x.m, k), y.m)
             mq == BN!MAdd(BN!MShl(qr[1], 1), IF qr[2] = <<>> THEN <<>> ELSE <<1>>)
         IN Round(F, SX(x.s, y.s), mq, x.e - y.e - k - 1)

\* order (exact)
MagCmp(x, y) == LET e == MinI(x.e, y.e) IN BN!MCmp(BN!MShl(x.m, x.e - e), BN!MShl(y.m, y.e - e))
MagLt(x, y) ==
    LET tx == x.e + BN!MBitLen(x.m)  ty == y.e + BN!MBitLen(y.m) IN
    IF tx # ty THEN tx < ty ELSE MagCmp(x, y) < 0
Rank(x) == CASE x.c = "inf"  -> (IF x.s = 1 THEN -2 ELSE 2)
             [] x.c = "zero" -> 0
             [] x.c = "fin"  -> (IF x.s = 1 THEN -1 ELSE 1)
Ordered(x, y) == x.c # "nan" /\ y.c # "nan"
EqF(x, y) == Ordered(x, y) /\ ((x.c = "zero" /\ y.c = "zero") \/ x = y)
NeF(x, y) == ~EqF(x, y)
LtF(x, y) == /\ Ordered(x, y)
             /\ IF Rank(x) # Rank(y) THEN Rank(x) < Rank(y)
                ELSE x.c = "fin" /\ (IF x.s = 0 THEN MagLt(x, y) ELSE MagLt(y, x))
GtF(x, y) == LtF(y, x)
LeF(x, y) == LtF(x, y) \/ EqF(x, y)
GeF(x, y) == LtF(y, x) \/ EqF(x, y)

One_F == Fin(0, 1, 0)
\* conversion between the formats: one rounding (exact when widening)
ConvFF(F2, x) == IF x.c = "fin" THEN Round(F2, x.s, x.m, x.e) ELSE x

-----------------------------------------------------------------------------
(* integer <-> float                                                          *)
\* a 64-bit pattern (5 limbs of 15 bits, BV.tla) and a magnitude use the same limb base
BVToMag(x) == BN!MNorm(x)
MagToBV(m) == [i \in 1..5 |-> BN!Limb(m, i)]
\* exact when the integer has at most F.p significant bits, rounded to nearest even otherwise
IntToFloat(F, k, x) ==
    IF x = Zero THEN Zr(0)
    ELSE Round(F, IF IsNeg(k, x) THEN 1 ELSE 0, BVToMag(Mag(k, x)), 0)

\* truncation toward zero; Panic doubles as "unspecified": when the truncated value is not a
\* value of kind k the Go specification leaves the result to the implementation
FloatToInt(k, x) ==
    IF x.c = "zero" THEN Zero
    ELSE IF x.c # "fin" THEN Panic
    ELSE LET mi  == IF x.e >= 0 THEN x.m ELSE BN!MShr(x.m, -x.e)      \* integer part of m * 2^min(e, 0)
             ei  == IF x.e >= 0 THEN x.e ELSE 0
             top == ei + BN!MBitLen(mi)                               \* |v| < 2^top
             v   == MagToBV(BN!MShl(mi, ei))
         IN IF mi = <<>> THEN Zero
            ELSE IF x.s = 0 THEN
                 (IF top <= (IF k.signed THEN k.w - 1 ELSE k.w) THEN Ext(k, v) ELSE Panic)
            ELSE IF k.signed /\ (top <= k.w - 1 \/ (mi = <<1>> /\ ei = k.w - 1))
                 THEN Ext(k, Neg64(v)) ELSE Panic

-----------------------------------------------------------------------------
(* complex numbers                                                            *)
Cx(re, im) == [re |-> re, im |-> im]
CSpec(z) == z.re.c # "unspec" /\ z.im.c # "unspec"
CU == Cx(Unspec, Unspec)
CFix(z) == IF CSpec(z) THEN z ELSE CU
CAdd(F, x, y) == CFix(Cx(AddF(F, x.re, y.re), AddF(F, x.im, y.im)))
CSub(F, x, y) == CFix(Cx(SubF(F, x.re, y.re), SubF(F, x.im, y.im)))
CNeg(x) == Cx(NegF(x.re), NegF(x.im))
\* intermediates in float64 (the compiler widens complex64 arithmetic), result converted
CMul(F, x, y) ==
    CFix(Cx(ConvFF(F, SubF(F64, MulF(F64, x.re, y.re), MulF(F64, x.im, y.im))),
            ConvFF(F, AddF(F64, MulF(F64, x.re, y.im), MulF(F64, x.im, y.re)))))
AbsF(x) == [x EXCEPT !.s = 0]
\* Smith's algorithm, as runtime.complex128div; a zero divisor is left unspecified
CQuo(F, n, m) ==
    IF m.re.c = "zero" /\ m.im.c = "zero" THEN CU
    ELSE IF GeF(AbsF(m.re), AbsF(m.im)) THEN
         LET ratio == QuoF(F64, m.im, m.re)
             denom == AddF(F64, m.re, MulF(F64, ratio, m.im))
         IN CFix(Cx(ConvFF(F, QuoF(F64, AddF(F64, n.re, MulF(F64, n.im, ratio)), denom)),
                    ConvFF(F, QuoF(F64, SubF(F64, n.im, MulF(F64, n.re, ratio)), denom))))
    ELSE LET ratio == QuoF(F64, m.re, m.im)
             denom == AddF(F64, m.im, MulF(F64, ratio, m.re))
         IN CFix(Cx(ConvFF(F, QuoF(F64, AddF(F64, MulF(F64, n.re, ratio), n.im), denom)),
                    ConvFF(F, QuoF(F64, SubF(F64, MulF(F64, n.im, ratio), n.re), denom))))
CEq(x, y) == EqF(x.re, y.re) /\ EqF(x.im, y.im)

-----------------------------------------------------------------------------
(* domains                                                                    *)
PM(S) == S \cup {NegF(x) : x \in S}
CommonF == PM({Zr(0), Inf(0), Fin(0,1,0), Fin(0,1,1), Fin(0,1,-1), Fin(0,3,-1), Fin(0,3,0),
               Fin(0,3,-2), Fin(0,5,1), Fin(0,25,2), Fin(0,127,0), Fin(0,1,7), Fin(0,255,0),
               Fin(0,1,8), Fin(0,32767,0), Fin(0,1,15), Fin(0,65535,0), Fin(0,1,16),
               Fin(0,1,31), Fin(0,1,32), Fin(0,1,63), Fin(0,1,64), Fin(0,1,24), Fin(0,16777215,0)})
           \cup {NaN}
\* values whose sums, products and quotients need rounding: 1/3, 1/10, 1/7 as the format holds them
\* (full-length mantissas), the neighbours of 1 (1 + ulp, 1 - ulp/2), the largest finite value, the
\* largest subnormal, 3 * the smallest subnormal, 2^p - 1 (the largest odd integer)
Third(F)   == QuoF(F, One_F, Fin(0,3,0))
Tenth(F)   == QuoF(F, One_F, Fin(0,5,1))
Seventh(F) == QuoF(F, One_F, Fin(0,7,0))
OnePlus(F)  == FinM(0, BN!MAdd(BN!MPow2(F.p - 1), <<1>>), 1 - F.p)
OneMinus(F) == FinM(0, BN!MSub(BN!MPow2(F.p), <<1>>), -F.p)
MaxF(F)     == FinM(0, BN!MSub(BN!MPow2(F.p), <<1>>), F.emax - F.p)
MaxSub(F)   == FinM(0, BN!MSub(BN!MPow2(F.p - 1), <<1>>), F.emin)
RoundVals(F) == PM({Third(F), Tenth(F), Seventh(F), OnePlus(F), OneMinus(F), MaxF(F), MaxSub(F), Fin(0,3,F.emin)})
FVals(F) == (IF F = F32
             THEN CommonF \cup PM({Fin(0,1,-149), Fin(0,1,-126), Fin(0,1,127), Fin(0,16777215,104)})
             ELSE CommonF \cup PM({Fin(0,1,-1074), Fin(0,1,-1022), Fin(0,1,1023), Fin(0,1,53),
                                   Fin(0,16777217,0), Fin(0,1,-149), Fin(0,1,127)}))
            \cup RoundVals(F)
\* reduced set for the complete-product part of the quick tier
FRed(F) == {NaN, Inf(0), Inf(1), Zr(0), Zr(1), Fin(0,1,0), Fin(1,1,0), Fin(0,3,-1), Fin(0,1,24),
            IF F = F32 THEN Fin(0,1,127) ELSE Fin(0,1,1023), Third(F), NegF(Tenth(F)), OnePlus(F)}
T32  == Tenth(F32)
Th32 == Third(F32)
CVals == {Cx(Zr(0), Zr(0)), Cx(Fin(0,1,0), Zr(0)), Cx(Fin(1,1,0), Zr(0)), Cx(Zr(0), Fin(0,1,0)),
          Cx(Zr(0), Fin(1,1,0)), Cx(Fin(0,1,0), Fin(0,1,0)), Cx(Fin(0,1,0), Fin(1,1,1)),
          Cx(Fin(1,3,-1), Fin(0,1,-1)), Cx(Fin(0,1,1), Zr(0)), Cx(Fin(0,3,0), Fin(0,1,2)),
          Cx(Zr(0), Fin(0,1,-1)), Cx(Fin(0,1,24), Fin(0,1,0)),
          Cx(T32, Th32), Cx(NegF(Th32), Fin(0,3,0)), Cx(Fin(0,1,0), T32)}

\* untyped CONSTANT operands that the format cannot hold: they are converted to the format by one
\* rounding of their exact value where they are used (operand of an operator whose other operand is
\* typed, initial value of a variable).  Around 1: the midpoints of the first two gaps (ties), and
\* values 2^-(p+36) relative above / below them (for float32 these are the values on which rounding
\* to float64 first and to float32 afterwards goes the other way); around the largest finite value.
Half(F, j, d) ==     \* 1 + j * 2^-p + d * 2^-(p+36)    (j odd: a midpoint when d = 0)
    LET m == BN!MAdd(BN!MShl(BN!MAdd(BN!MPow2(F.p), BN!MFromNat(j)), 36), IF d > 0 THEN <<1>> ELSE <<>>)
        n == IF d < 0 THEN BN!MSub(m, <<1>>) ELSE m
    IN NormM(0, n, -F.p - 36)
ConVals(F) == PM({Half(F, 1, 0), Half(F, 1, 1), Half(F, 1, -1), Half(F, 3, 0), Half(F, 3, 1), Half(F, 3, -1)})
              \cup {FinM(0, BN!MSub(BN!MPow2(F.p + 40), <<1>>), F.emax - F.p - 40 - 1)}   \* just below MaxF + ulp/2

-----------------------------------------------------------------------------
(* Table generation (same scheme as BV)                                       *)
NoF == Zr(0)
NoC == Cx(Zr(0), Zr(0))
FJob(l, f, F, k, a, fa, ca) == [lvl |-> l, fam |-> f, F |-> F, k |-> k, a |-> a, fa |-> fa, ca |-> ca]
FInit == job = FJob(0, "none", F32, NoKind, Zero, NoF, NoC)
FNext ==
    \/ /\ job.lvl = 0
       /\ \E f \in Fams : \E F \in Formats :
            \E k \in (IF f = "itof" THEN Kinds ELSE {NoKind}) :
              job' = FJob(1, f, F, k, Zero, NoF, NoC)
    \/ /\ job.lvl = 1
       /\ \/ job.fam \in {"farith", "fconv", "fcon"} /\ \E x \in FVals(job.F) : job' = [job EXCEPT !.lvl = 2, !.fa = x]
          \/ job.fam = "itof" /\ \E x \in Vals(job.k) : job' = [job EXCEPT !.lvl = 2, !.a = x]
          \/ job.fam = "carith" /\ \E x \in CVals : job' = [job EXCEPT !.lvl = 2, !.ca = x]
    \/ /\ job.lvl = 2
       /\ job' = [job EXCEPT !.lvl = 3]
FSpec == FInit /\ [][FNext]_job
FDone(f) == job.lvl = 3 /\ job.fam = f

FRows ==
    LET F == job.F  x == job.fa IN
    CASE job.fam = "farith" ->
           {[b |-> y, add |-> AddF(F,x,y), sub |-> SubF(F,x,y), mul |-> MulF(F,x,y), quo |-> QuoF(F,x,y),
             eq |-> EqF(x,y), ne |-> NeF(x,y), lt |-> LtF(x,y), le |-> LeF(x,y), gt |-> GtF(x,y),
             ge |-> GeF(x,y), neg |-> NegF(x), inc |-> AddF(F,x,One_F), dec |-> SubF(F,x,One_F),
             red |-> (x \in FRed(F) /\ y \in FRed(F))] : y \in FVals(F)}
      [] job.fam = "fcon" ->       \* y: an untyped constant, rounded once to the format where it meets x
           {LET y == Round(F, c.s, c.m, c.e) IN
            [b |-> c, rb |-> y, add |-> AddF(F,x,y), sub |-> SubF(F,x,y), mul |-> MulF(F,x,y), quo |-> QuoF(F,x,y),
             eq |-> EqF(x,y), ne |-> NeF(x,y), lt |-> LtF(x,y), le |-> LeF(x,y), gt |-> GtF(x,y),
             ge |-> GeF(x,y), red |-> x \in FRed(F)] : c \in ConVals(F)}
      [] job.fam = "fconv" ->
           {[k2 |-> k2, red |-> x \in FRed(F), v |-> FloatToInt(k2, x)] : k2 \in Kinds}
      [] job.fam = "itof" ->
           {[red |-> InRed(job.k, job.a), v |-> IntToFloat(F, job.k, job.a)]}
      [] job.fam = "carith" ->
           {[b |-> y, add |-> CAdd(F, job.ca, y), sub |-> CSub(F, job.ca, y), mul |-> CMul(F, job.ca, y),
             quo |-> CQuo(F, job.ca, y), eq |-> CEq(job.ca, y), ne |-> ~CEq(job.ca, y),
             neg |-> CNeg(job.ca)] : y \in CVals}
FEmit == job.lvl = 3 =>
    PrintT(<<"BEH", ToJson([fam |-> job.fam, F |-> job.F.name, k |-> job.k, a |-> job.a, fa |-> job.fa,
                            ca |-> job.ca,
                            tof |-> (IF job.fam = "fconv" THEN {[F2 |-> G.name, v |-> ConvFF(G, job.fa)] : G \in Formats} ELSE {}),
                            toc |-> (IF job.fam = "carith"
                                     THEN {[F2 |-> G.name, v |-> Cx(ConvFF(G, job.ca.re), ConvFF(G, job.ca.im))] : G \in Formats}
                                     ELSE {}),
                            rows |-> FRows])>>)

-----------------------------------------------------------------------------
(* What TLC checks on the model itself                                        *)
Spc(x) == x.c # "unspec"
ASSUME FDomainOK == \A F \in Formats : (\A x \in FVals(F) : InFormat(F, x)) /\ FRed(F) \subseteq FVals(F)
\* r is within half a quantum (of r) of the exact value (-1)^s * m * 2^e: a necessary condition of
\* correct rounding that does not go through Round (normal results only)
Quantum(F, r) == MaxI(r.e + BN!MBitLen(r.m) - F.p, F.emin)
ErrOK(F, r, s, m, e) ==
    (r.c = "fin" /\ m # <<>>) =>
        /\ r.s = s
        /\ LET e0 == MinI(e, r.e)
               av == BN!MShl(m, e - e0)
               ar == BN!MShl(r.m, r.e - e0)
               d  == IF BN!MCmp(av, ar) >= 0 THEN BN!MSub(av, ar) ELSE BN!MSub(ar, av)
               q  == Quantum(F, r)
           IN q >= e0 => BN!MCmp(BN!MShl(d, 1), BN!MPow2(q - e0)) <= 0
\* the quotient r of x by y, checked by multiplying back: |r * y - x| <= quantum(r)/2 * |y|
QuoOK(F, x, y) ==
    LET r == QuoF(F, x, y) IN
    (x.c = "fin" /\ y.c = "fin" /\ r.c = "fin") =>
        LET e0 == MinI(r.e + y.e, x.e)
            a  == BN!MShl(BN!MMul(r.m, y.m), r.e + y.e - e0)
            b  == BN!MShl(x.m, x.e - e0)
            d  == IF BN!MCmp(a, b) >= 0 THEN BN!MSub(a, b) ELSE BN!MSub(b, a)
            k  == Quantum(F, r) + y.e - e0 + F.p + 1100          \* both sides scaled by 2^(p+1100)
        IN k >= 0 /\ BN!MCmp(BN!MShl(d, 1 + F.p + 1100), BN!MShl(y.m, k)) <= 0
SaneFArith == FDone("farith") =>
    LET F == job.F  x == job.fa IN
    /\ NegF(NegF(x)) = x
    /\ (x.c = "fin" => SubF(F, x, x) = Zr(0) /\ QuoF(F, x, x) = One_F /\ MulF(F, x, One_F) = x /\ AddF(F, x, Zr(0)) = x)
    /\ (x.c = "nan" => ~EqF(x, x) /\ NeF(x, x)) /\ (x.c # "nan" => EqF(x, x))
    /\ \A y \in FVals(F) :
         /\ AddF(F, x, y) = AddF(F, y, x)
         /\ MulF(F, x, y) = MulF(F, y, x)
         /\ InFormat(F, AddF(F,x,y)) /\ InFormat(F, SubF(F,x,y)) /\ InFormat(F, MulF(F,x,y)) /\ InFormat(F, QuoF(F,x,y))
         \* rounding error of the product and of the quotient
         /\ (x.c = "fin" /\ y.c = "fin" => ErrOK(F, MulF(F, x, y), SX(x.s, y.s), BN!MMul(x.m, y.m), x.e + y.e))
         /\ QuoOK(F, x, y)
         \* scaling by a power of two is exact as long as the result stays normal
         /\ LET p == MulF(F, x, Fin(0,1,1)) IN (x.c = "fin" /\ p.c = "fin" /\ x.e + BN!MBitLen(x.m) - F.p >= F.emin
                                                   => QuoF(F, p, Fin(0,1,1)) = x)
         \* a sum that is exactly representable is returned exactly, then subtraction undoes it
         /\ LET s == AddF(F, x, y) IN
              (x.c = "fin" /\ y.c = "fin" /\ s.c = "fin" /\ SubF(F, s, y) = x /\ SubF(F, s, x) = y) => AddF(F, SubF(F, s, y), y) = s
         \* order: total on non-NaN, empty with NaN, consistent with subtraction (gradual underflow:
         \* the difference of two different values is never zero)
         /\ (Ordered(x, y) => (LtF(x, y) = ~GeF(x, y)) /\ (GtF(x, y) = ~LeF(x, y)))
         /\ (~Ordered(x, y) => ~LtF(x,y) /\ ~LeF(x,y) /\ ~GtF(x,y) /\ ~GeF(x,y) /\ ~EqF(x,y) /\ NeF(x,y))
         /\ LET d == SubF(F, x, y) IN
              (x.c = "fin" /\ y.c = "fin" /\ d.c \in {"fin", "zero", "inf"} =>
                   (LtF(x, y) <=> (d.c # "zero" /\ d.s = 1)))
\* the directed constants: rounding them is within half a quantum, a tie goes to the even neighbour,
\* and for float32 some of them round differently when rounded to float64 first (the family is
\* not vacuous for double rounding)
SaneFCon == FDone("fcon") =>
    LET F == job.F IN
    /\ \A c \in ConVals(F) : LET y == Round(F, c.s, c.m, c.e) IN
          /\ InFormat(F, y) /\ ~InFormat(F, c)
          /\ ErrOK(F, y, c.s, c.m, c.e)
    /\ Round(F, 0, Half(F, 1, 0).m, Half(F, 1, 0).e) = One_F                       \* tie: down to the even 1
    /\ Round(F, 0, Half(F, 3, 0).m, Half(F, 3, 0).e) = FinM(0, BN!MAdd(BN!MPow2(F.p - 2), <<1>>), 2 - F.p)   \* tie: up to 1 + 2 ulp
    /\ Round(F, 0, Half(F, 1, 1).m, Half(F, 1, 1).e) = OnePlus(F)
    /\ (F = F32 => LET c == Half(F32, 1, 1) v == Round(F64, c.s, c.m, c.e) IN Round(F32, v.s, v.m, v.e) = One_F)
SaneFConv == FDone("fconv") =>
    \A k2 \in Kinds : LET v == FloatToInt(k2, job.fa) IN
       v # Panic => /\ Canon(k2, v)
                    \* converting back gives the float truncated toward zero
                    /\ (job.fa.c = "fin" /\ job.fa.e >= 0 => IntToFloat(F64, k2, v) \in {job.fa, Unspec})
SaneIToF == FDone("itof") =>
    LET F  == job.F
        v  == IntToFloat(F, job.k, job.a)
        mg == BVToMag(Mag(job.k, job.a))
    IN /\ InFormat(F, v)
       /\ ErrOK(F, v, IF IsNeg(job.k, job.a) THEN 1 ELSE 0, mg, 0)
       \* an integer with at most p significant bits converts exactly, and back
       /\ (job.a = Zero => v = Zr(0))
       /\ (job.a # Zero /\ BN!MBitLen(mg) - BN!MTz(mg) <= F.p => v.c = "fin" /\ FloatToInt(job.k, v) = job.a)
COne == Cx(One_F, Zr(0))
SaneCArith == FDone("carith") =>
    LET F == job.F  x == job.ca IN
    /\ CNeg(CNeg(x)) = x
    /\ CEq(CMul(F, x, COne), x) /\ CEq(CQuo(F, x, COne), x)
    /\ CEq(CSub(F, x, x), Cx(Zr(0), Zr(0)))
    /\ \A y \in CVals :
       /\ CAdd(F, x, y) = CAdd(F, y, x)
       /\ CEq(CMul(F, x, y), CMul(F, y, x))
       /\ CEq(CSub(F, x, y), CNeg(CSub(F, y, x)))
       /\ CSpec(CAdd(F, x, y)) /\ CSpec(CMul(F, x, y))
       /\ InFormat(F, CMul(F, x, y).re) /\ InFormat(F, CMul(F, x, y).im)
=============================================================================
