------------------------------ MODULE FloatSym ------------------------------
(* C02 - floating-point and complex operators on a SYMBOLIC domain.          *)
(*                                                                           *)
(* TLC has no reals.  A float is NaN, +-Inf, +-0 or an exact dyadic rational *)
(* (-1)^s * m * 2^e with m odd and below 2^30.  Every operator gives         *)
(*   - the IEEE 754 special-value result (NaN propagation, Inf - Inf,        *)
(*     0 * Inf, x / 0, signs of zeros, comparisons with NaN, -0 = +0),       *)
(*   - the exact result whenever the exact result is representable in the    *)
(*     format (then no rounding takes place, whatever the rounding mode),    *)
(*   - +-Inf when the exact result is at or beyond 2^emax (overflow),        *)
(*   - Unspec otherwise: the result needs rounding, which this module does   *)
(*     not specify.  Unspec rows are not used by the harness.                *)
(* Complex numbers are pairs; multiplication and division follow the formulas *)
(* the Go compiler and runtime use (so that signs of zero agree) and are     *)
(* specified only where every intermediate result is exact.                  *)
EXTENDS BV

NaN       == [c |-> "nan",    s |-> 0, m |-> 0, e |-> 0]
Inf(s)    == [c |-> "inf",    s |-> s, m |-> 0, e |-> 0]
Zr(s)     == [c |-> "zero",   s |-> s, m |-> 0, e |-> 0]
Unspec    == [c |-> "unspec", s |-> 0, m |-> 0, e |-> 0]
Fin(s, m, e) == [c |-> "fin", s |-> s, m |-> m, e |-> e]      \* m odd, m > 0

F32 == [name |-> "float32", p |-> 24, emin |-> -149,  emax |-> 128]
F64 == [name |-> "float64", p |-> 53, emin |-> -1074, emax |-> 1024]
Formats == {F32, F64}

MaxBits == 30                      \* TLC integers: keep every mantissa below 2^30
RECURSIVE BitLen(_)
BitLen(m) == IF m = 0 THEN 0 ELSE 1 + BitLen(m \div 2)
RECURSIVE Norm(_, _)
Norm(m, e) == IF m % 2 = 0 THEN Norm(m \div 2, e + 1) ELSE <<m, e>>
Flip(s) == 1 - s
SX(s, t) == IF s = t THEN 0 ELSE 1

\* the float of format F that equals (-1)^s * m * 2^e exactly, if there is one
Result(F, s, m, e) ==
    IF m = 0 THEN Zr(s)
    ELSE LET n == Norm(m, e)  mm == n[1]  ee == n[2]  bl == BitLen(mm) IN
         IF ee + bl > F.emax THEN Inf(s)                       \* |x| >= 2^emax
         ELSE IF bl <= F.p /\ ee >= F.emin THEN Fin(s, mm, ee)
         ELSE Unspec
InFormat(F, x) == x.c # "unspec" /\ (x.c = "fin" => Result(F, x.s, x.m, x.e) = x)

NegF(x) == IF x.c \in {"nan", "unspec"} THEN x ELSE [x EXCEPT !.s = Flip(x.s)]

AddF(F, x, y) ==
    IF x.c = "unspec" \/ y.c = "unspec" THEN Unspec
    ELSE IF x.c = "nan" \/ y.c = "nan" THEN NaN
    ELSE IF x.c = "inf" THEN (IF y.c = "inf" /\ y.s # x.s THEN NaN ELSE x)
    ELSE IF y.c = "inf" THEN y
    ELSE IF x.c = "zero" /\ y.c = "zero" THEN (IF x.s = y.s THEN x ELSE Zr(0))
    ELSE IF x.c = "zero" THEN y
    ELSE IF y.c = "zero" THEN x
    ELSE LET e  == IF x.e < y.e THEN x.e ELSE y.e
             dx == x.e - e   dy == y.e - e
         IN IF dx + BitLen(x.m) > MaxBits - 1 \/ dy + BitLen(y.m) > MaxBits - 1 THEN Unspec
            ELSE LET vx == (IF x.s = 1 THEN -1 ELSE 1) * x.m * 2^dx
                     vy == (IF y.s = 1 THEN -1 ELSE 1) * y.m * 2^dy
                     v  == vx + vy
                 IN IF v = 0 THEN Zr(0)                         \* exact zero sum: +0
                    ELSE Result(F, IF v < 0 THEN 1 ELSE 0, IF v < 0 THEN -v ELSE v, e)
SubF(F, x, y) == AddF(F, x, NegF(y))

MulF(F, x, y) ==
    IF x.c = "unspec" \/ y.c = "unspec" THEN Unspec
    ELSE IF x.c = "nan" \/ y.c = "nan" THEN NaN
    ELSE IF (x.c = "inf" /\ y.c = "zero") \/ (x.c = "zero" /\ y.c = "inf") THEN NaN
    ELSE IF x.c = "inf" \/ y.c = "inf" THEN Inf(SX(x.s, y.s))
    ELSE IF x.c = "zero" \/ y.c = "zero" THEN Zr(SX(x.s, y.s))
    ELSE IF BitLen(x.m) + BitLen(y.m) > MaxBits THEN Unspec
    ELSE Result(F, SX(x.s, y.s), x.m * y.m, x.e + y.e)

QuoF(F, x, y) ==
    IF x.c = "unspec" \/ y.c = "unspec" THEN Unspec
    ELSE IF x.c = "nan" \/ y.c = "nan" THEN NaN
    ELSE IF (x.c = "inf" /\ y.c = "inf") \/ (x.c = "zero" /\ y.c = "zero") THEN NaN
    ELSE IF x.c = "inf" THEN Inf(SX(x.s, y.s))
    ELSE IF y.c = "inf" THEN Zr(SX(x.s, y.s))
    ELSE IF y.c = "zero" THEN Inf(SX(x.s, y.s))                 \* finite non-zero / 0
    ELSE IF x.c = "zero" THEN Zr(SX(x.s, y.s))
    ELSE IF x.m % y.m # 0 THEN Unspec                           \* quotient is not dyadic
    ELSE Result(F, SX(x.s, y.s), x.m \div y.m, x.e - y.e)

\* order
MagLt(x, y) ==
    LET tx == x.e + BitLen(x.m)  ty == y.e + BitLen(y.m) IN
    IF tx # ty THEN tx < ty
    ELSE IF x.e >= y.e THEN x.m * 2^(x.e - y.e) < y.m ELSE x.m < y.m * 2^(y.e - x.e)
Rank(x) == CASE x.c = "inf"  -> (IF x.s = 1 THEN -2 ELSE 2)
             [] x.c = "zero" -> 0
             [] x.c = "fin"  -> (IF x.s = 1 THEN -1 ELSE 1)
Ordered(x, y) == x.c # "nan" /\ y.c # "nan"
EqF(x, y) == Ordered(x, y) /\ ((x.c = "zero" /\ y.c = "zero") \/ x = y)
NeF(x, y) == ~EqF(x, y)
LtF(x, y) == /\ Ordered(x, y)
             /\ IF Rank(x) # Rank(y) THEN Rank(x) < Rank(y)
                ELSE x.c = "fin" /\ (IF x.s = 0 THEN MagLt(x, y) ELSE MagLt(y, x))
GtF(x, y) == LtF(y, x)
LeF(x, y) == LtF(x, y) \/ EqF(x, y)
GeF(x, y) == LtF(y, x) \/ EqF(x, y)

One_F == Fin(0, 1, 0)
ConvFF(F2, x) == IF x.c = "fin" THEN Result(F2, x.s, x.m, x.e) ELSE x

-----------------------------------------------------------------------------
(* integer <-> float                                                          *)
RECURSIVE LowBitFrom(_, _), HighBitFrom(_, _)
LowBitFrom(x, i)  == IF Bit(x, i) = 1 THEN i ELSE LowBitFrom(x, i + 1)
HighBitFrom(x, i) == IF Bit(x, i) = 1 THEN i ELSE HighBitFrom(x, i - 1)
IntToFloat(F, k, x) ==
    IF x = Zero THEN Zr(0)
    ELSE LET mg == Mag(k, x)  lo == LowBitFrom(mg, 0)  hi == HighBitFrom(mg, 63) IN
         IF hi - lo + 1 > MaxBits THEN Unspec
         ELSE LET r == LShr64(mg, lo) IN
              Result(F, IF IsNeg(k, x) THEN 1 ELSE 0, r[1] + r[2] * B, lo)

\* truncation toward zero; Unspec when the truncated value is not a value of kind k
\* (the Go specification leaves that case to the implementation)
NatToBV(n) == <<n % B, n \div B, 0, 0, 0>>
FloatToInt(k, x) ==
    IF x.c = "zero" THEN Zero
    ELSE IF x.c # "fin" THEN Panic                              \* Panic doubles as "unspecified"
    ELSE LET mi == IF x.e >= 0 THEN x.m ELSE IF -x.e > MaxBits THEN 0 ELSE x.m \div 2^(-x.e)
             ei == IF x.e >= 0 THEN x.e ELSE 0
             top == ei + BitLen(mi)                             \* |v| < 2^top
         IN IF mi = 0 THEN Zero
            ELSE IF x.s = 0 THEN
                 (IF top <= (IF k.signed THEN k.w - 1 ELSE k.w)
                  THEN Ext(k, Mul64(NatToBV(mi), TwoTo(ei))) ELSE Panic)
            ELSE IF k.signed /\ (top <= k.w - 1 \/ (mi = 1 /\ ei = k.w - 1))
                 THEN Ext(k, Neg64(Mul64(NatToBV(mi), TwoTo(ei)))) ELSE Panic

-----------------------------------------------------------------------------
(* complex numbers                                                            *)
Cx(re, im) == [re |-> re, im |-> im]
CSpec(z) == z.re.c # "unspec" /\ z.im.c # "unspec"
CU == Cx(Unspec, Unspec)
CFix(z) == IF CSpec(z) THEN z ELSE CU
CAdd(F, x, y) == CFix(Cx(AddF(F, x.re, y.re), AddF(F, x.im, y.im)))
CSub(F, x, y) == CFix(Cx(SubF(F, x.re, y.re), SubF(F, x.im, y.im)))
CNeg(x) == Cx(NegF(x.re), NegF(x.im))
\* intermediates in float64 (the compiler widens complex64 arithmetic), result converted
CMul(F, x, y) ==
    CFix(Cx(ConvFF(F, SubF(F64, MulF(F64, x.re, y.re), MulF(F64, x.im, y.im))),
            ConvFF(F, AddF(F64, MulF(F64, x.re, y.im), MulF(F64, x.im, y.re)))))
AbsF(x) == [x EXCEPT !.s = 0]
\* Smith's algorithm, as runtime.complex128div; a zero divisor is left unspecified
CQuo(F, n, m) ==
    IF m.re.c = "zero" /\ m.im.c = "zero" THEN CU
    ELSE IF GeF(AbsF(m.re), AbsF(m.im)) THEN
         LET ratio == QuoF(F64, m.im, m.re)
             denom == AddF(F64, m.re, MulF(F64, ratio, m.im))
         IN CFix(Cx(ConvFF(F, QuoF(F64, AddF(F64, n.re, MulF(F64, n.im, ratio)), denom)),
                    ConvFF(F, QuoF(F64, SubF(F64, n.im, MulF(F64, n.re, ratio)), denom))))
    ELSE LET ratio == QuoF(F64, m.re, m.im)
             denom == AddF(F64, m.im, MulF(F64, ratio, m.re))
         IN CFix(Cx(ConvFF(F, QuoF(F64, AddF(F64, MulF(F64, n.re, ratio), n.im), denom)),
                    ConvFF(F, QuoF(F64, SubF(F64, MulF(F64, n.im, ratio), n.re), denom))))
CEq(x, y) == EqF(x.re, y.re) /\ EqF(x.im, y.im)

-----------------------------------------------------------------------------
(* domains                                                                    *)
PM(S) == S \cup {NegF(x) : x \in S}
CommonF == PM({Zr(0), Inf(0), Fin(0,1,0), Fin(0,1,1), Fin(0,1,-1), Fin(0,3,-1), Fin(0,3,0),
               Fin(0,3,-2), Fin(0,5,1), Fin(0,25,2), Fin(0,127,0), Fin(0,1,7), Fin(0,255,0),
               Fin(0,1,8), Fin(0,32767,0), Fin(0,1,15), Fin(0,65535,0), Fin(0,1,16),
               Fin(0,1,31), Fin(0,1,32), Fin(0,1,63), Fin(0,1,64), Fin(0,1,24), Fin(0,16777215,0)})
           \cup {NaN}
FVals(F) == IF F = F32
            THEN CommonF \cup PM({Fin(0,1,-149), Fin(0,1,-126), Fin(0,1,127), Fin(0,16777215,104)})
            ELSE CommonF \cup PM({Fin(0,1,-1074), Fin(0,1,-1022), Fin(0,1,1023), Fin(0,1,53),
                                  Fin(0,16777217,0), Fin(0,1,-149), Fin(0,1,127)})
\* reduced set for the complete-product part of the quick tier
FRed(F) == {NaN, Inf(0), Inf(1), Zr(0), Zr(1), Fin(0,1,0), Fin(1,1,0), Fin(0,3,-1), Fin(0,1,24),
            IF F = F32 THEN Fin(0,1,127) ELSE Fin(0,1,1023)}
CVals == {Cx(Zr(0), Zr(0)), Cx(Fin(0,1,0), Zr(0)), Cx(Fin(1,1,0), Zr(0)), Cx(Zr(0), Fin(0,1,0)),
          Cx(Zr(0), Fin(1,1,0)), Cx(Fin(0,1,0), Fin(0,1,0)), Cx(Fin(0,1,0), Fin(1,1,1)),
          Cx(Fin(1,3,-1), Fin(0,1,-1)), Cx(Fin(0,1,1), Zr(0)), Cx(Fin(0,3,0), Fin(0,1,2)),
          Cx(Zr(0), Fin(0,1,-1)), Cx(Fin(0,1,24), Fin(0,1,0))}

-----------------------------------------------------------------------------
(* Table generation (same scheme as BV)                                       *)
NoF == Zr(0)
NoC == Cx(Zr(0), Zr(0))
FJob(l, f, F, k, a, fa, ca) == [lvl |-> l, fam |-> f, F |-> F, k |-> k, a |-> a, fa |-> fa, ca |-> ca]
FInit == job = FJob(0, "none", F32, NoKind, Zero, NoF, NoC)
FNext ==
    \/ /\ job.lvl = 0
       /\ \E f \in Fams : \E F \in Formats :
            \E k \in (IF f = "itof" THEN Kinds ELSE {NoKind}) :
              job' = FJob(1, f, F, k, Zero, NoF, NoC)
    \/ /\ job.lvl = 1
       /\ \/ job.fam \in {"farith", "fconv"} /\ \E x \in FVals(job.F) : job' = [job EXCEPT !.lvl = 2, !.fa = x]
          \/ job.fam = "itof" /\ \E x \in Vals(job.k) : job' = [job EXCEPT !.lvl = 2, !.a = x]
          \/ job.fam = "carith" /\ \E x \in CVals : job' = [job EXCEPT !.lvl = 2, !.ca = x]
    \/ /\ job.lvl = 2
       /\ job' = [job EXCEPT !.lvl = 3]
FSpec == FInit /\ [][FNext]_job
FDone(f) == job.lvl = 3 /\ job.fam = f

FRows ==
    LET F == job.F  x == job.fa IN
    CASE job.fam = "farith" ->
           {[b |-> y, add |-> AddF(F,x,y), sub |-> SubF(F,x,y), mul |-> MulF(F,x,y), quo |-> QuoF(F,x,y),
             eq |-> EqF(x,y), ne |-> NeF(x,y), lt |-> LtF(x,y), le |-> LeF(x,y), gt |-> GtF(x,y),
             ge |-> GeF(x,y), neg |-> NegF(x), inc |-> AddF(F,x,One_F), dec |-> SubF(F,x,One_F),
             red |-> (x \in FRed(F) /\ y \in FRed(F))] : y \in FVals(F)}
      [] job.fam = "fconv" ->
           {[k2 |-> k2, red |-> x \in FRed(F), v |-> FloatToInt(k2, x)] : k2 \in Kinds}
      [] job.fam = "itof" ->
           {[red |-> InRed(job.k, job.a), v |-> IntToFloat(F, job.k, job.a)]}
      [] job.fam = "carith" ->
           {[b |-> y, add |-> CAdd(F, job.ca, y), sub |-> CSub(F, job.ca, y), mul |-> CMul(F, job.ca, y),
             quo |-> CQuo(F, job.ca, y), eq |-> CEq(job.ca, y), ne |-> ~CEq(job.ca, y),
             neg |-> CNeg(job.ca)] : y \in CVals}
FEmit == job.lvl = 3 =>
    PrintT(<<"BEH", ToJson([fam |-> job.fam, F |-> job.F.name, k |-> job.k, a |-> job.a, fa |-> job.fa,
                            ca |-> job.ca,
                            tof |-> (IF job.fam = "fconv" THEN {[F2 |-> G.name, v |-> ConvFF(G, job.fa)] : G \in Formats} ELSE {}),
                            toc |-> (IF job.fam = "carith"
                                     THEN {[F2 |-> G.name, v |-> Cx(ConvFF(G, job.ca.re), ConvFF(G, job.ca.im))] : G \in Formats}
                                     ELSE {}),
                            rows |-> FRows])>>)

-----------------------------------------------------------------------------
(* What TLC checks on the model itself                                        *)
Spc(x) == x.c # "unspec"
ASSUME FDomainOK == \A F \in Formats : (\A x \in FVals(F) : InFormat(F, x)) /\ FRed(F) \subseteq FVals(F)
SaneFArith == FDone("farith") =>
    LET F == job.F  x == job.fa IN
    /\ NegF(NegF(x)) = x
    /\ (x.c = "fin" => SubF(F, x, x) = Zr(0) /\ QuoF(F, x, x) = One_F /\ MulF(F, x, One_F) = x)
    /\ (x.c = "nan" => ~EqF(x, x) /\ NeF(x, x)) /\ (x.c # "nan" => EqF(x, x))
    /\ \A y \in FVals(F) :
         /\ AddF(F, x, y) = AddF(F, y, x)
         /\ MulF(F, x, y) = MulF(F, y, x)
         /\ InFormat(F, AddF(F,x,y)) \/ ~Spc(AddF(F,x,y))
         /\ InFormat(F, MulF(F,x,y)) \/ ~Spc(MulF(F,x,y))
         /\ InFormat(F, QuoF(F,x,y)) \/ ~Spc(QuoF(F,x,y))
         \* exact inverses on finite values
         /\ LET s == AddF(F, x, y) IN (x.c = "fin" /\ y.c = "fin" /\ s.c = "fin" => SubF(F, s, y) = x)
         /\ LET q == QuoF(F, x, y) IN (x.c = "fin" /\ y.c = "fin" /\ q.c = "fin" => MulF(F, q, y) = x)
         /\ LET p == MulF(F, x, y) IN (x.c = "fin" /\ y.c = "fin" /\ p.c = "fin" => QuoF(F, p, y) = x)
         \* order: total on non-NaN, empty with NaN, consistent with subtraction
         /\ (Ordered(x, y) => (LtF(x, y) = ~GeF(x, y)) /\ (GtF(x, y) = ~LeF(x, y)))
         /\ (~Ordered(x, y) => ~LtF(x,y) /\ ~LeF(x,y) /\ ~GtF(x,y) /\ ~GeF(x,y) /\ ~EqF(x,y) /\ NeF(x,y))
         /\ LET d == SubF(F, x, y) IN
              (x.c = "fin" /\ y.c = "fin" /\ d.c \in {"fin", "zero", "inf"} =>
                   (LtF(x, y) <=> (d.c # "zero" /\ d.s = 1)))
SaneFConv == FDone("fconv") =>
    \A k2 \in Kinds : LET v == FloatToInt(k2, job.fa) IN
       v # Panic => /\ Canon(k2, v)
                    \* converting back gives the float truncated toward zero
                    /\ (job.fa.c = "fin" /\ job.fa.e >= 0 => IntToFloat(F64, k2, v) \in {job.fa, Unspec})
SaneIToF == FDone("itof") =>
    LET v == IntToFloat(job.F, job.k, job.a) IN
    v.c # "unspec" => FloatToInt(job.k, v) = job.a
SaneCArith == FDone("carith") =>
    LET F == job.F  x == job.ca IN
    \A y \in CVals :
       /\ CAdd(F, x, y) = CAdd(F, y, x)
       /\ LET q == CQuo(F, x, y) IN (CSpec(q) /\ CSpec(CMul(F, q, y)) => CEq(CMul(F, q, y), x))
       /\ LET s == CAdd(F, x, y) IN (CSpec(s) => CEq(CSub(F, s, y), x))
       /\ (CSpec(CMul(F, x, y)) /\ CSpec(CMul(F, y, x)) => CEq(CMul(F, x, y), CMul(F, y, x)))
=============================================================================
