------------------------------- MODULE OpSeq -------------------------------
(* C02 - operator and conversion SITES evaluated repeatedly inside one       *)
(* activation.                                                               *)
(*                                                                           *)
(* The property says that the result of an operator depends on its operands  *)
(* only.  BV/FloatSym tabulate that function; a harness that evaluates every *)
(* generated expression once per function activation cannot see an executor  *)
(* that keeps state between two evaluations of the same site (a result slot  *)
(* that is not rewritten on one outcome, an operand cached at the first      *)
(* evaluation).  This module generates, per operator family and kind, a      *)
(* SEQUENCE of operand tuples for one site in a loop, such that every        *)
(* ordered pair of operand tuples over the class representatives (false /    *)
(* true, zero / one / -1 / min / max / 2^(w/2), NaN / Inf / -0 / +0 / finite)  *)
(* occurs consecutively (false -> true, zero -> nonzero, negative -> positive,*)
(* NaN -> number, wrapping -> in range, ...), and the prediction per element,*)
(* which is the same pure function as in the table.                          *)
(* The sequence is a de Bruijn sequence B(N, 2) over the N tuples, permuted  *)
(* by a seeded affine map.                                                   *)
EXTENDS FloatSym

CONSTANTS Stride, Offset        \* seeded permutation i |-> ((i-1)*Stride + Offset) % N + 1

RECURSIVE Dedup(_)
Dedup(s) == IF s = <<>> THEN <<>>
            ELSE LET r == Dedup(SubSeq(s, 1, Len(s) - 1))  x == s[Len(s)]
                 IN IF x \in Range(r) THEN r ELSE Append(r, x)

\* de Bruijn sequence B(N,2) as concatenation of the Lyndon words i, ij (i<j), closed
RECURSIVE DBRow(_, _, _), DBFrom(_, _)
DBRow(i, j, N) == IF j > N THEN <<>> ELSE <<i, j>> \o DBRow(i, j + 1, N)
DBFrom(i, N)   == IF i > N THEN <<>> ELSE (<<i>> \o DBRow(i, i + 1, N)) \o DBFrom(i + 1, N)
DB(N)          == DBFrom(1, N) \o <<1>>
Perm(N, i)     == (((i - 1) * Stride + Offset) % N) + 1
PSeq(N)        == LET d == DB(N) IN [n \in DOMAIN d |-> Perm(N, d[n])]
PairCover(s, N) == {<<s[n], s[n + 1]>> : n \in 1..(Len(s) - 1)} = (1..N) \X (1..N)

-----------------------------------------------------------------------------
(* class representatives                                                      *)
RedSeq(k)  == Dedup(<<Zero, One, Ext(k, Ones), MinOf(k), MaxOf(k), TwoTo(k.w \div 2)>>)
NzSeq(k)   == SelectSeq(RedSeq(k), LAMBDA x : x # Zero)
CntSeq(k)  == <<Zero, One, FromNat(k.w - 1), FromNat(k.w), FromNat(65)>>     \* non-negative counts
Feed(k)    == <<MinOf(k), One, MaxOf(k)>>
BoolSeq    == << <<0>>, <<1>> >>
StrSeq     == << <<>>, <<1>>, <<2>>, <<1, 3>> >>
FSeq       == <<NaN, Inf(0), Zr(1), Zr(0), Fin(0,1,0), Fin(1,1,0), Fin(0,3,-1), Th32>>    \* Th32: 1/3 as float32 holds it (sums, products and quotients with it need rounding in both formats)
FFeed      == <<NaN, Zr(0), Fin(0,1,0)>>
FConvSeq   == <<NaN, Inf(0), Zr(1), Zr(0), Fin(0,1,0), Fin(1,1,0), Fin(0,3,-1), Fin(0,1,24), Fin(1,255,0)>>
CSeq       == <<Cx(Zr(0), Zr(0)), Cx(Fin(0,1,0), Zr(0)), Cx(Zr(0), Fin(1,1,0)), Cx(Fin(1,3,-1), Fin(0,1,-1))>>
None       == << <<0>> >>                                       \* absent operand

KindName(k) == (IF k.signed THEN "s" ELSE "u") \o
               (CASE k.w = 8 -> "8" [] k.w = 16 -> "16" [] k.w = 32 -> "32" [] k.w = 64 -> "64")
KindNames == {KindName(k) : k \in Kinds}
KOf(n) == CHOOSE k \in Kinds : KindName(k) = n

Shapes == {"and", "or", "nland", "nlor", "andn", "orn", "nand", "nor"}
Shape(s, p, q) == CASE s = "and"   -> p /\ q      [] s = "or"   -> p \/ q
                    [] s = "nland" -> ~p /\ q     [] s = "nlor" -> ~p \/ q
                    [] s = "andn"  -> p /\ ~q     [] s = "orn"  -> p \/ ~q
                    [] s = "nand"  -> ~(p /\ q)   [] s = "nor"  -> ~(p \/ q)
CmpNames == {"eq", "ne", "lt", "le", "gt", "ge"}
CmpKn(c, k, a, b) == CASE c = "eq" -> EqK(k,a,b) [] c = "ne" -> NeK(k,a,b) [] c = "lt" -> LtK(k,a,b)
                       [] c = "le" -> LeK(k,a,b) [] c = "gt" -> GtK(k,a,b) [] c = "ge" -> GeK(k,a,b)
CmpFn(c, a, b)    == CASE c = "eq" -> EqF(a,b) [] c = "ne" -> NeF(a,b) [] c = "lt" -> LtF(a,b)
                       [] c = "le" -> LeF(a,b) [] c = "gt" -> GtF(a,b) [] c = "ge" -> GeF(a,b)

IntFamsS   == {"sarith", "sdiv", "scmp", "sshift", "sunary", "sconv", "scmpfeed"}
FloatFamsS == {"sfarith", "sfcmpfeed", "sfconv", "scomplex"}
PlainFamsS == {"sbool", "sstr"}

\* operand value lists of a site family
VA(f, k, F) == CASE f \in {"sarith", "sdiv", "scmp", "sshift", "sunary", "sconv"} -> RedSeq(k)
                 [] f = "scmpfeed" -> Feed(k)   [] f = "sbool" -> BoolSeq   [] f = "sstr" -> StrSeq
                 [] f = "sfarith" -> FSeq       [] f = "sfcmpfeed" -> FFeed [] f = "sfconv" -> FConvSeq
                 [] f = "scomplex" -> CSeq
VB(f, k, F) == CASE f \in {"sarith", "scmp"} -> RedSeq(k)
                 [] f = "sdiv" -> NzSeq(k)      [] f = "sshift" -> CntSeq(k)
                 [] f = "scmpfeed" -> Feed(k)   [] f = "sbool" -> BoolSeq   [] f = "sstr" -> StrSeq
                 [] f = "sfarith" -> FSeq       [] f = "sfcmpfeed" -> FFeed [] f = "scomplex" -> CSeq
                 [] OTHER -> None
VQ(f)       == IF f \in {"scmpfeed", "sfcmpfeed"} THEN BoolSeq ELSE None

\* the result record of one operand tuple: the same operators as the table
Res(f, k, F, a, b, q) ==
    CASE f = "sarith" -> [add |-> AddK(k,a,b), sub |-> SubK(k,a,b), mul |-> MulK(k,a,b), and |-> AndK(k,a,b),
                          or |-> OrK(k,a,b), xor |-> XorK(k,a,b), andnot |-> AndNotK(k,a,b)]
      [] f = "sdiv"   -> [quo |-> QuoK(k,a,b), rem |-> RemK(k,a,b)]
      [] f = "scmp"   -> [c \in CmpNames |-> CmpKn(c, k, a, b)]
      [] f = "sshift" -> [shl |-> ShlN(k, a, b[1]), shr |-> ShrN(k, a, b[1])]
      [] f = "sunary" -> [neg |-> NegK(k,a), not |-> NotK(k,a), inc |-> IncK(k,a), dec |-> DecK(k,a)]
      [] f = "sconv"  -> [toI |-> [n \in KindNames |-> Conv(k, KOf(n), a)],
                          toF |-> [G \in {"float32", "float64"} |->
                                     IntToFloat(IF G = "float32" THEN F32 ELSE F64, k, a)]]
      [] f = "scmpfeed" -> [c \in CmpNames |-> [s \in Shapes |-> Shape(s, CmpKn(c, k, a, b), Tr(q))]]
      [] f = "sbool"  -> [sh |-> [s \in Shapes |-> Shape(s, Tr(a), Tr(b))], eq |-> a = b, ne |-> a # b, not |-> ~Tr(a)]
      [] f = "sstr"   -> [add |-> a \o b, eq |-> a = b, ne |-> a # b, lt |-> StrLt(a, b), le |-> StrLt(a, b) \/ a = b,
                          gt |-> StrLt(b, a), ge |-> StrLt(b, a) \/ a = b]
      [] f = "sfarith" -> [add |-> AddF(F,a,b), sub |-> SubF(F,a,b), mul |-> MulF(F,a,b), quo |-> QuoF(F,a,b),
                           cmp |-> [c \in CmpNames |-> CmpFn(c, a, b)],
                           neg |-> NegF(a), inc |-> AddF(F,a,One_F), dec |-> SubF(F,a,One_F)]
      [] f = "sfcmpfeed" -> [c \in CmpNames |-> [s \in Shapes |-> Shape(s, CmpFn(c, a, b), Tr(q))]]
      [] f = "sfconv" -> [toI |-> [n \in KindNames |-> FloatToInt(KOf(n), a)],
                          toF |-> [G \in {"float32", "float64"} |-> ConvFF(IF G = "float32" THEN F32 ELSE F64, a)]]
      [] f = "scomplex" -> [add |-> CAdd(F,a,b), sub |-> CSub(F,a,b), mul |-> CMul(F,a,b), quo |-> CQuo(F,a,b),
                            eq |-> CEq(a,b), ne |-> ~CEq(a,b), neg |-> CNeg(a)]

-----------------------------------------------------------------------------
(* One site: tuple t in 1..NA*NB*NQ is (ai, bi, qi), q fastest.               *)
AI(t, nb, nq) == (t - 1) \div (nb * nq) + 1
BI(t, nb, nq) == (((t - 1) \div nq) % nb) + 1
QI(t, nb, nq) == ((t - 1) % nq) + 1

SiteOf(f, k, F) ==
    LET va == VA(f, k, F)  vb == VB(f, k, F)  vq == VQ(f)
        na == Len(va)  nb == Len(vb)  nq == Len(vq)  n == na * nb * nq
        tab == [t \in 1..n |-> Res(f, k, F, va[AI(t, nb, nq)], vb[BI(t, nb, nq)], vq[QI(t, nb, nq)])]
        bs  == PSeq(n)
    IN [lvl |-> 2, fam |-> f, k |-> k, F |-> F, va |-> va, vb |-> vb, nq |-> nq, tab |-> tab,
        bseq |-> bs, ua |-> PSeq(na), ub |-> PSeq(nb),
        out |-> [i \in DOMAIN bs |-> tab[bs[i]]]]          \* the predicted observations, in order

Blank(l, f, k, F) == [lvl |-> l, fam |-> f, k |-> k, F |-> F, va |-> <<>>, vb |-> <<>>, nq |-> 1, tab |-> <<>>,
                      bseq |-> <<>>, ua |-> <<>>, ub |-> <<>>, out |-> <<>>]
SInit == job = Blank(0, "none", NoKind, F32)
SNext ==
    \/ /\ job.lvl = 0
       /\ \E f \in Fams :
            \E k \in (IF f \in IntFamsS THEN Kinds ELSE {NoKind}) :
              \E F \in (IF f \in FloatFamsS THEN Formats ELSE {F32}) :
                 job' = Blank(1, f, k, F)
    \/ /\ job.lvl = 1
       /\ job' = SiteOf(job.fam, job.k, job.F)
SSpec == SInit /\ [][SNext]_job

SEmit == job.lvl = 2 =>
    PrintT(<<"BEH", ToJson([fam |-> job.fam, k |-> job.k, F |-> job.F.name, va |-> job.va, vb |-> job.vb,
                            nq |-> job.nq, tab |-> job.tab, bseq |-> job.bseq, ua |-> job.ua, ub |-> job.ub])>>)

-----------------------------------------------------------------------------
(* What TLC checks on the generated sequences                                 *)
NTuples == Len(job.va) * Len(job.vb) * job.nq
\* every ordered pair of operand tuples (resp. of single operands, for the sites with a
\* constant operand) occurs consecutively
SeqCover == job.lvl = 2 =>
    /\ PairCover(job.bseq, NTuples)
    /\ PairCover(job.ua, Len(job.va))
    /\ PairCover(job.ub, Len(job.vb))
    /\ Len(job.bseq) = NTuples * NTuples + 1
\* history-freedom of a site: equal operand tuples at different positions of the sequence
\* have equal predicted results, i.e. position |-> (tuple, result) is a function of the tuple
HistoryFree == job.lvl = 2 =>
    /\ Len(job.out) = Len(job.bseq)
    /\ Cardinality({<<job.bseq[i], job.out[i]>> : i \in DOMAIN job.bseq}) = NTuples
    /\ \A t \in 1..NTuples : \E i \in DOMAIN job.bseq : job.bseq[i] = t /\ job.out[i] = job.tab[t]
\* the class representatives are pairwise distinct values of the kind
RepsOK == job.lvl = 2 =>
    /\ Cardinality(Range(job.va)) = Len(job.va) /\ Cardinality(Range(job.vb)) = Len(job.vb)
    /\ (job.fam \in IntFamsS \ {"sshift"} => \A i \in DOMAIN job.va : Canon(job.k, job.va[i]))
    /\ (job.fam = "sdiv" => \A i \in DOMAIN job.vb : job.vb[i] # Zero /\ job.tab[i].quo # Panic)
=============================================================================
