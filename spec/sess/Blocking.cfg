SPECIFICATION Spec
INVARIANTS Classified Emit
