------------------------------- MODULE Blocking -------------------------------
(* C09 - the family of blocking constructs.                                     *)
(*                                                                             *)
(* The property quantifies over "every blocking channel construct".  This       *)
(* module makes that domain explicit: a program of the family has a number of   *)
(* worker goroutines that execute one blocking construct in a loop, a main      *)
(* goroutine that serves them for a few rounds and then either stays busy or    *)
(* blocks itself.  What the cancellation must achieve is stated once, for all   *)
(* of them, by Cancel.tla (every goroutine completes at most the operation it   *)
(* had in flight, causes no further side effect, and exits); this module only   *)
(* enumerates the programs, and classifies each construct by what a worker      *)
(* blocked in it is waiting for, which is what the renderer needs to serve it.  *)
EXTENDS TLC, Json, FiniteSets

\* the blocking statement executed by the workers
Forms == { "recv", "recv-assign", "recv-ok", "send", "range",
           "select1-recv", "select1-recv-assign", "select1-recv-ok", "select1-send",
           "select2-recv-recv", "select2-recv-send", "select-default-then-recv" }
\* where the statement lives: a declared function, a function literal started by go, a method
Holders == {"func", "literal", "method"}
\* what main does once the workers are served
Mains == {"busy", "blocked-recv", "blocked-select-empty", "blocked-select1"}
Workers == {1, 3}
\* where the blocking statement is relative to the worker's loop: in the loop's own frame, or in a
\* callee whose caller has a side effect left to execute when the callee returns.  A cancelled channel
\* operation ends the frame it is in like a return; what stops the CALLER is its own run-id check
\* (Stop.tla), so "callee" is the depth at which a released goroutine could go on.
Depths == {"own", "callee"}
\* a crowd of workers blocked in a callee and released by one cancellation: the only way to reach
\* goroutines that run while stop() is between its two statements (Stop.tla, IdFirst = FALSE)
Crowd == 2000

\* a worker blocked in the construct waits for a value ("recv-like") or for a receiver ("send-like")
WaitsFor(f) == IF f \in {"send", "select1-send"} THEN "receiver" ELSE "value"

\* where the workers' code was defined: "same" in the evaluation that is cancelled; "earlier" by an EARLIER
\* evaluation of the same interpreter through EvalWithContext with a context that cannot be cancelled
\* (context.Background()).  The cancellable variants of the channel operations are chosen when the code of a
\* function is generated: code defined by any ...WithContext call must stop like the rest.
Libs == {"same", "earlier"}
Family == [form : Forms, holder : Holders, main : Mains, workers : Workers, depth : Depths, lib : {"same"}]
          \cup [form : Forms, holder : {"func"}, main : {"blocked-recv"}, workers : {Crowd}, depth : {"callee"}, lib : {"same"}]
          \cup [form : Forms, holder : {"func", "method"}, main : {"blocked-recv"}, workers : {3}, depth : Depths, lib : {"earlier"}]

VARIABLE prog
Init == prog \in Family
Next == UNCHANGED prog
Spec == Init /\ [][Next]_prog

\* every construct is classified, and both classes occur
Classified == WaitsFor(prog.form) \in {"receiver", "value"}
Emit == PrintT(<<"BEH", ToJson([form |-> prog.form, holder |-> prog.holder, main |-> prog.main,
                                workers |-> prog.workers, depth |-> prog.depth, lib |-> prog.lib, waits |-> WaitsFor(prog.form)])>>)
===============================================================================
