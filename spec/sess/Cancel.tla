-------------------------------- MODULE Cancel --------------------------------
(* Property-level specification of cancellation (C09) used for TRACE           *)
(* VALIDATION.  A trace is the concatenation of many recorded runs; each run   *)
(* is one cancelled evaluation observed from outside the interpreter:          *)
(*                                                                             *)
(*   Start     a run begins (program, entry point, cancellation point k)       *)
(*   Returned  the API call came back after the context was cancelled          *)
(*             (its error text, its latency in ms, whether the evaluation had  *)
(*             already finished by itself, and whether it was cancelled while  *)
(*             EVERY goroutine was waiting in a channel operation)             *)
(*   Resume(g) goroutine g, which was about to execute an operation when the   *)
(*             call returned, executes that in-flight operation                *)
(*   Op(g)     goroutine g BEGINS a new interpreted operation after the return *)
(*   Tick(g)   goroutine g calls the host counter function after the return    *)
(*   Follow    the host issues another Eval on the same interpreter            *)
(*   Quiesce   the run is over: how many interpreted goroutines are still      *)
(*             alive compared with the baseline                                *)
(*                                                                             *)
(* The property, per run: the call returns the context's error promptly; from  *)
(* then on every goroutine completes at most the one operation it had in       *)
(* flight (ops[g] <= 1), causes at most the side effect of that operation      *)
(* (ticks[g] <= 1), and exits (Quiesce sees none left).  When the evaluation   *)
(* was cancelled while every goroutine was waiting in a channel operation, the *)
(* operation in flight IS that channel operation: a goroutine the cancellation *)
(* releases executes nothing more, not even one operation (Stop.tla shows the  *)
(* schedule in which the mechanism would let it: woken between the two         *)
(* statements of stop()).                                                       *)
(* Runs that violate it are collected in `bad` (with the reason), so that one  *)
(* pass over the concatenated trace judges every run.                          *)
EXTENDS Naturals, Sequences, FiniteSets, TLC, Json

CONSTANTS MaxLatencyMs

Trace == ndJsonDeserialize("trace.ndjson")

VARIABLES l,       \* next line of the trace
          run,     \* identifier of the current run
          phase,   \* "idle" | "running" | "returned" | "quiesced"
          ops,     \* goroutine -> operations executed after the return
          ticks,   \* goroutine -> host side effects after the return
          blocked, \* the run was cancelled while every goroutine was waiting in a channel operation
          bad      \* set of <<run, reason>>
vars == <<l, run, phase, ops, ticks, blocked, bad>>

Ev == Trace[l]
IsEvent(e) == l <= Len(Trace) /\ Ev.e = e /\ l' = l + 1

Bump(f, g) == IF g \in DOMAIN f THEN [f EXCEPT ![g] = @ + 1] ELSE f @@ (g :> 1)
Get(f, g)  == IF g \in DOMAIN f THEN f[g] ELSE 0
Empty == [x \in {} |-> 0]

Init == l = 1 /\ run = "" /\ phase = "idle" /\ ops = Empty /\ ticks = Empty /\ blocked = FALSE /\ bad = {}

\* also the reset between concatenated runs
Start ==
    /\ IsEvent("Start") /\ phase \in {"idle", "quiesced"}
    /\ run' = Ev.run /\ phase' = "running" /\ ops' = Empty /\ ticks' = Empty /\ blocked' = FALSE
    /\ UNCHANGED bad

Returned ==
    /\ IsEvent("Returned") /\ phase = "running"
    /\ phase' = "returned" /\ blocked' = Ev.blocked
    /\ bad' = bad
         \cup (IF ~Ev.finished /\ Ev.err # "context canceled" /\ Ev.err # "context deadline exceeded"
               THEN {<<run, "call did not return the context's error">>} ELSE {})
         \cup (IF Ev.latency_ms > MaxLatencyMs THEN {<<run, "call did not return promptly">>} ELSE {})
    /\ UNCHANGED <<run, ops, ticks>>

Released == IF blocked THEN {<<run, "goroutine released from a blocked channel operation by the cancellation went on executing">>}
            ELSE {}

\* an operation executed after the return: the in-flight one (Resume) or a new one (Op)
OpAfter(kind) ==
    /\ IsEvent(kind) /\ phase = "returned"
    /\ ops' = Bump(ops, Ev.g)
    /\ bad' = (IF Get(ops, Ev.g) >= 1
               THEN bad \cup {<<run, "goroutine executed more than one operation after the call returned">>}
               ELSE bad) \cup Released
    /\ UNCHANGED <<run, phase, ticks, blocked>>

Tick ==
    /\ IsEvent("Tick") /\ phase = "returned"
    /\ ticks' = Bump(ticks, Ev.g)
    /\ bad' = (IF Get(ticks, Ev.g) >= 1
               THEN bad \cup {<<run, "goroutine caused more than one side effect after the call returned">>}
               ELSE bad) \cup Released
    /\ UNCHANGED <<run, phase, ops, blocked>>

Follow ==
    /\ IsEvent("Follow") /\ phase = "returned"
    /\ bad' = IF Ev.ok THEN bad ELSE bad \cup {<<run, "interpreter unusable after the cancelled evaluation">>}
    /\ UNCHANGED <<run, phase, ops, ticks, blocked>>

Quiesce ==
    /\ IsEvent("Quiesce") /\ phase = "returned"
    /\ phase' = "quiesced"
    /\ bad' = IF Ev.extra > 0 THEN bad \cup {<<run, "interpreted goroutines still alive">>} ELSE bad
    /\ UNCHANGED <<run, ops, ticks, blocked>>

Next == Start \/ Returned \/ OpAfter("Resume") \/ OpAfter("Op") \/ Tick \/ Follow \/ Quiesce
Spec == Init /\ [][Next]_vars

\* what the property says, as state predicates over one run
AtMostOneOp   == \A g \in DOMAIN ops : ops[g] <= 1
AtMostOneTick == \A g \in DOMAIN ticks : ticks[g] <= 1

\* the verdict is handed to the harness when the whole trace has been consumed;
\* a trace that is not a behaviour of this module (wrong event order) is never
\* consumed completely and the harness treats that as a machinery error
Done == l = Len(Trace) + 1
Emit == Done => PrintT(<<"BEH", ToJson([consumed |-> l - 1, bad |-> bad])>>)
===============================================================================
