SPECIFICATION Spec
CONSTANTS MaxLatencyMs = 2000
INVARIANTS Emit
CHECK_DEADLOCK FALSE
