--------------------------------- MODULE Debug ---------------------------------
(* C19 - running under the debugger does not change program behaviour.          *)
(*                                                                               *)
(* Trace-validation specification of a debugging session, observed through the   *)
(* public API (the event callback, the requests the driver issues, Wait):        *)
(*                                                                               *)
(*   Start(run, expect)  a session begins; expect is the sequence of lines the   *)
(*                       specification of the PROGRAM (GoCore) predicts for the   *)
(*                       breakpoint hits, in execution order                      *)
(*   Req(kind)           the driver resumes: continue | into | over | out         *)
(*   Stop(reason, line, depth)  the debugger reports a stop                       *)
(*   Term                the terminate event                                      *)
(*   End(out_ok, end_ok, hung)  Wait returned; was the output / the result and    *)
(*                       panic what the program's specification predicts          *)
(*                                                                               *)
(* What must hold per session (violations are collected in bad):                  *)
(*   OutputIndependent  out_ok /\ end_ok /\ ~hung                                 *)
(*   BreaksInOrder      the stops with reason "break" are exactly expect          *)
(*   TerminateLast      exactly one terminate event, and nothing after it         *)
(* Collected as observations only (notes), because the property does not state    *)
(* them: a stop that is not a breakpoint carries the kind of the last request;    *)
(* after "over" the next stop is not deeper than the stop it was requested at,    *)
(* after "out" it is shallower (deferred calls legitimately run deeper).          *)
EXTENDS Naturals, Sequences, FiniteSets, TLC, Json

Trace == ndJsonDeserialize("trace.ndjson")

VARIABLES l, run, phase,   \* "idle" | "running" | "stopped" | "terminated"
          expect, nbreak,  \* predicted breakpoint hits, how many were seen
          req, reqDepth,   \* last request and the depth of the stop it was issued at
          depth,           \* depth of the last stop
          bad, notes
vars == <<l, run, phase, expect, nbreak, req, reqDepth, depth, bad, notes>>

Ev == Trace[l]
IsEvent(e) == l <= Len(Trace) /\ Ev.e = e /\ l' = l + 1
Bad(cond, why) == IF cond THEN {<<run, why>>} ELSE {}

Init == l = 1 /\ run = "" /\ phase = "idle" /\ expect = <<>> /\ nbreak = 0 /\ req = "" /\ reqDepth = 0 /\ depth = 0 /\ bad = {} /\ notes = {}

Start ==
    /\ IsEvent("Start") /\ phase = "idle"
    /\ run' = Ev.run /\ expect' = Ev.expect /\ nbreak' = 0 /\ req' = "" /\ reqDepth' = 0 /\ depth' = 0
    /\ phase' = "stopped"          \* the program waits for the first request
    /\ UNCHANGED <<bad, notes>>

Req ==
    /\ IsEvent("Req")
    /\ req' = Ev.kind /\ reqDepth' = depth
    /\ phase' = IF phase = "terminated" THEN phase ELSE "running"
    /\ bad' = bad \cup Bad(phase = "running", "request issued while the program was running")
    /\ UNCHANGED <<run, expect, nbreak, depth, notes>>

Stop ==
    /\ IsEvent("Stop")
    /\ phase' = IF phase = "terminated" THEN phase ELSE "stopped"
    /\ depth' = Ev.depth
    /\ nbreak' = IF Ev.reason = "break" THEN nbreak + 1 ELSE nbreak
    /\ bad' = bad
         \cup Bad(phase = "terminated", "event after the terminate event")
         \cup Bad(phase = "stopped", "stop reported without a request")
         \cup Bad(Ev.reason = "break" /\ (nbreak + 1 > Len(expect) \/ (nbreak + 1 <= Len(expect) /\ expect[nbreak + 1] # Ev.line)),
                  "breakpoint hit out of execution order or not predicted")
    /\ notes' = notes
         \cup Bad(Ev.reason \notin {"break", "fbreak"} /\ req = "continue", "stop that is not a breakpoint after continue")
         \cup Bad(Ev.reason \notin {"break", "fbreak", "entry"} /\ req # "continue" /\ Ev.reason # req, "stop reason does not match the request")
         \cup Bad(Ev.reason \notin {"break", "fbreak"} /\ req = "over" /\ Ev.depth > reqDepth /\ reqDepth > 0, "step over stopped deeper than where it was requested")
         \cup Bad(Ev.reason \notin {"break", "fbreak"} /\ req = "out" /\ Ev.depth >= reqDepth /\ reqDepth > 0, "step out did not leave the function")
    /\ UNCHANGED <<run, expect, req, reqDepth>>

Term ==
    /\ IsEvent("Term")
    /\ phase' = "terminated"
    /\ bad' = bad \cup Bad(phase = "terminated", "more than one terminate event")
    /\ UNCHANGED <<run, expect, nbreak, req, reqDepth, depth, notes>>

End ==
    /\ IsEvent("End")
    /\ phase' = "idle"
    /\ bad' = bad
         \cup Bad(Ev.hung, "session did not terminate")
         \cup Bad(~Ev.hung /\ phase # "terminated", "no terminate event at the end of the session")
         \cup Bad(~Ev.hung /\ ~Ev.out_ok, "output differs from plain execution")
         \cup Bad(~Ev.hung /\ ~Ev.end_ok, "result or panic differs from plain execution")
         \cup Bad(~Ev.hung /\ nbreak # Len(expect), "a breakpoint on a line that executes was not reported")
    /\ UNCHANGED <<run, expect, nbreak, req, reqDepth, depth, notes>>

Next == Start \/ Req \/ Stop \/ Term \/ End
Spec == Init /\ [][Next]_vars

Done == l = Len(Trace) + 1
Emit == Done => PrintT(<<"BEH", ToJson([consumed |-> l - 1, bad |-> bad, notes |-> Cardinality(notes)])>>)
===============================================================================
