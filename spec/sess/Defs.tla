--------------------------------- MODULE Defs ---------------------------------
(* C10 - a cancelled evaluation does not damage earlier definitions.            *)
(*                                                                             *)
(* Property-level model of one interpreter session:                            *)
(*     Define* ; (Use | CancelledEval)*                                        *)
(* Every definition is a counter: using it adds 1 to its own count and returns *)
(* the new count, whoever calls it (a later Eval, a later EvalWithContext that *)
(* is not cancelled, or the host through a function value obtained right after *)
(* the definition).  A cancelled evaluation runs a program that touches none   *)
(* of the definitions, or it CALLS one of the blocking definitions (Blocking:   *)
(* a function that first waits for a value in a select or a receive and only   *)
(* then counts) and is cancelled while it waits there: the count is unchanged,  *)
(* and the definition must serve later uses as if that call had never been.     *)
(* The module generates the histories (exhaustively up to                      *)
(* a length, by simulation beyond) together with the value every Use must      *)
(* return; the mechanism-level reason why the real interpreter can fail is     *)
(* modelled separately in RunId.tla (invariant DefinitionsSurvive).            *)
EXTENDS Naturals, Sequences, FiniteSets, TLC, Json, Randomization

CONSTANTS Kinds,      \* definition kinds in this configuration
          MaxLen,     \* maximal number of Use/CancelledEval steps
          AllowAfterCancel \* FALSE: named exclusion for the random tier, see below

\* how a definition is used: a fresh Eval / EvalWithContext of the call, the host calling the function
\* value it holds, or Execute / ExecuteWithContext of a PROGRAM COMPILED BEFORE the history began
\* (nothing is compiled at the use: no global slot is added)
Vias  == {"eval", "ctx", "host", "prog", "progctx"}
\* "compiling": the evaluation is cancelled while its source is still being LOADED (it imports a source package
\* and is held in the source file system): the call returns the context's error, the goroutine of the
\* evaluation is left behind and goes on - loading, compiling, entering execution - when it is RELEASED, at
\* any later point of the history.  Whatever it does then, it is an evaluation that was cancelled.
Whats == {"busy", "blocked", "expired", "compiling"}
\* definitions whose use waits (single-clause select, two-clause select, receive) before it counts
Blocking == {"selfn", "sel2fn", "recvfn"}

VARIABLES count,   \* kind -> number of completed uses
          hist,    \* the steps so far, each with its predicted return value
          ncancel, \* cancelled evaluations so far
          fresh,   \* TRUE when an evaluation has completed since the last cancelled one
          parked   \* an evaluation cancelled while loading its source is held in the file system
vars == <<count, hist, ncancel, fresh, parked>>

Init == count = [k \in Kinds |-> 0] /\ hist = <<>> /\ ncancel = 0 /\ fresh = TRUE /\ parked = FALSE

Use(k, via) ==
    /\ Len(hist) < MaxLen
    /\ count' = [count EXCEPT ![k] = @ + 1]
    /\ hist' = Append(hist, [op |-> "use", kind |-> k, via |-> via, what |-> "", ret |-> count[k] + 1])
    /\ fresh' = (fresh \/ via \in {"eval", "ctx"})
    /\ UNCHANGED <<ncancel, parked>>

CancelledEval(w) ==
    /\ Len(hist) < MaxLen
    /\ w = "compiling" => ~parked
    /\ hist' = Append(hist, [op |-> "cancel", kind |-> "", via |-> "", what |-> w, ret |-> 0])
    /\ ncancel' = ncancel + 1
    /\ fresh' = FALSE
    /\ parked' = (parked \/ w = "compiling")
    /\ UNCHANGED count

\* the goroutine left behind by the evaluation cancelled while loading is released: it changes nothing
Release ==
    /\ Len(hist) < MaxLen /\ parked
    /\ hist' = Append(hist, [op |-> "release", kind |-> "", via |-> "", what |-> "", ret |-> 0])
    /\ parked' = FALSE
    /\ UNCHANGED <<count, ncancel, fresh>>

(* Excluded_F_C10_1 / Excluded_F_C10_2: the random tier does not use function   *)
(* literals stored in variables after a cancelled evaluation, nor host-held     *)
(* function values before a further Eval has completed (known findings); the    *)
(* exhaustive tier keeps those histories so the findings stay exercised.        *)
Fragile == {"closure", "litfunc"}
Allowed(k, via) ==
    \/ AllowAfterCancel
    \/ ncancel = 0
    \/ (k \notin Fragile /\ (via # "host" \/ fresh))

\* the cancelled evaluation calls definition k and is cancelled while k waits
CancelledInDef(k) ==
    /\ Len(hist) < MaxLen
    /\ hist' = Append(hist, [op |-> "cancel", kind |-> k, via |-> "", what |-> "indef", ret |-> 0])
    /\ ncancel' = ncancel + 1
    /\ fresh' = FALSE
    /\ UNCHANGED <<count, parked>>

Next == \/ \E k \in Kinds, via \in Vias : Allowed(k, via) /\ Use(k, via)
        \/ \E w \in Whats : CancelledEval(w)
        \/ \E k \in Kinds \cap Blocking : CancelledInDef(k)
        \/ Release

\* simulation: kind of step first, then its parameters
NextSim ==
    LET z == hist IN
    IF parked /\ RandomElement(1..3) = 1 THEN Release
    ELSE IF RandomElement(1..3) = 1
    THEN (IF Kinds \cap Blocking # {} /\ RandomElement(1..2) = 1
          THEN CancelledInDef(RandomElement(Kinds \cap Blocking))
          ELSE CancelledEval(RandomElement(IF parked THEN Whats \ {"compiling"} ELSE Whats)))
    ELSE LET kv == {p \in Kinds \X Vias : Allowed(p[1], p[2])} IN
         kv # {} /\ LET p == RandomElement(kv) IN Use(p[1], p[2])

Spec    == Init /\ [][Next]_vars
SpecSim == Init /\ [][NextSim]_vars

(* The property on the model: a cancelled evaluation is a stuttering step of the *)
(* definitions' state, and every use returns one more than the previous use of   *)
(* the same definition.                                                          *)
CancelIsStutter == [][((\E w \in Whats : CancelledEval(w)) \/ (\E k \in Kinds \cap Blocking : CancelledInDef(k)) \/ Release) => UNCHANGED count]_vars
UsesCountUp ==
    \A i \in 1..Len(hist) : hist[i].op = "use" =>
        hist[i].ret = 1 + Cardinality({j \in 1..(i-1) : hist[j].op = "use" /\ hist[j].kind = hist[i].kind})

Emit == Len(hist) = MaxLen => PrintT(<<"BEH", ToJson([kinds |-> Kinds, hist |-> hist])>>)
===============================================================================
