SPECIFICATION Spec
CONSTANTS G = {1,2,3} MaxEval = 1 MaxOps = 3 RunUsesInterpId = FALSE ExecuteRefreshesRoot = TRUE ExecuteAfterCancel = FALSE
INVARIANTS TypeOK AtMostOneOp
