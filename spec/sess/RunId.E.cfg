SPECIFICATION Spec
CONSTANTS G = {1,2,3} MaxEval = 2 MaxOps = 3 RunUsesInterpId = TRUE ExecuteRefreshesRoot = TRUE ExecuteAfterCancel = TRUE
INVARIANTS TypeOK DefinitionsSurvive
