-------------------------------- MODULE RunId --------------------------------
(* Mechanism-level model of yaegi's cancellation design, one action per code   *)
(* site (interp.go stop/runid, program.go Execute, run.go run/runCfg/call/     *)
(* getFunc/genFunctionWrapper).  It is model-checked as a DESIGN: the two      *)
(* properties C09 (AtMostOneOp) and C10 (DefinitionsSurvive) are invariants,   *)
(* and the constants select "code as it is" or "code with a candidate repair". *)
(* The counterexamples TLC finds name the scenarios the harness replays on the *)
(* real interpreter (cancel inside init; cancel before Execute starts; root-   *)
(* level loop revived by the next Eval; closure used after a cancelled eval).  *)
(* Verdicts never come from this module (DESIGN 2.3): a repaired interpreter   *)
(* that uses another mechanism must not raise an alarm.                        *)
EXTENDS Naturals, FiniteSets, TLC

CONSTANTS G,                  \* goroutine identifiers
          MaxEval,            \* number of successive evaluations
          MaxOps,             \* operations per goroutine
          RunUsesInterpId,    \* TRUE: interp.run(n, cf) takes interp.runid() (code as it is)
          ExecuteRefreshesRoot,\* TRUE: Execute does interp.frame.setrunid(interp.runid()) (as it is)
          ExecuteAfterCancel  \* TRUE: an evaluation cancelled while compiling still enters Execute (as it is)

VARIABLES interpId,   \* interp.id
          rootId,     \* interp.frame.id (the global frame)
          evalNo,     \* number of the evaluation in progress or last started
          phase,      \* "idle" | "busy": is an EvalWithContext call in progress
          cancelled,  \* set of evaluations whose context was cancelled (stop() called)
          g,          \* goroutines: [alive, eval, stage, id, ops, after]
          defs        \* definitions made by evaluations: [eval, id]
vars == <<interpId, rootId, evalNo, phase, cancelled, g, defs>>

\* stage of a goroutine: "compile" (the evaluating goroutine before Execute),
\* "root" (executing top-level code on the global frame), "fn" (in a function frame)
Dead == [alive |-> FALSE, eval |-> 0, stage |-> "fn", id |-> 0, ops |-> 0, after |-> 0]

Init == /\ interpId = 0 /\ rootId = 0 /\ evalNo = 0 /\ phase = "idle"
        /\ cancelled = {} /\ g = [i \in G |-> Dead] /\ defs = {}

FrameId(i)  == IF g[i].stage = "root" THEN rootId ELSE g[i].id
Runnable(i) == g[i].alive /\ g[i].stage # "compile" /\ FrameId(i) = interpId   \* the runCfg loop condition
Free        == {i \in G : ~g[i].alive /\ g[i].eval = 0}

\* EvalWithContext / ExecuteWithContext: a goroutine is started for Eval; it compiles first
EvalStart ==
    /\ phase = "idle" /\ evalNo < MaxEval /\ Free # {}
    /\ LET i == CHOOSE x \in Free : TRUE IN
       g' = [g EXCEPT ![i] = [alive |-> TRUE, eval |-> evalNo + 1, stage |-> "compile", id |-> 0, ops |-> 0, after |-> 0]]
    /\ evalNo' = evalNo + 1 /\ phase' = "busy"
    /\ UNCHANGED <<interpId, rootId, cancelled, defs>>

\* Execute: interp.frame.setrunid(interp.runid()).  Nothing stops the compile phase,
\* so this also happens for an evaluation that has been cancelled in the meantime.
ExecuteStart(i) ==
    /\ g[i].alive /\ g[i].stage = "compile"
    /\ ExecuteAfterCancel \/ g[i].eval \notin cancelled
    /\ g' = [g EXCEPT ![i].stage = "root"]
    /\ rootId' = IF ExecuteRefreshesRoot THEN interpId ELSE rootId
    /\ UNCHANGED <<interpId, evalNo, phase, cancelled, defs>>

\* Execute: interp.run(n, interp.frame) for an init function or main - a new frame on
\* top of the global one.  Execute itself is straight-line Go code: it gets here
\* whether or not the run loop of the previous step was stopped.
RunInitOrMain(i) ==
    /\ g[i].alive /\ g[i].stage = "root"
    /\ g' = [g EXCEPT ![i].stage = "fn", ![i].id = IF RunUsesInterpId THEN interpId ELSE rootId]
    /\ UNCHANGED <<interpId, rootId, evalNo, phase, cancelled, defs>>

\* one interpreted operation (the body of the runCfg loop)
Op(i) ==
    /\ Runnable(i) /\ g[i].ops < MaxOps
    /\ g' = [g EXCEPT ![i].ops = @ + 1,
                      ![i].after = IF g[i].eval \in cancelled THEN @ + 1 ELSE @]
    /\ UNCHANGED <<interpId, rootId, evalNo, phase, cancelled, defs>>

\* the loop condition fails in a function frame: the goroutine unwinds and ends
Exit(i) ==
    /\ g[i].alive /\ g[i].stage = "fn" /\ FrameId(i) # interpId
    /\ g' = [g EXCEPT ![i].alive = FALSE]
    /\ UNCHANGED <<interpId, rootId, evalNo, phase, cancelled, defs>>

\* go statement in call(): newFrame(f, ..., f.runid())
Go(i) ==
    /\ Runnable(i) /\ Free # {}
    /\ LET j == CHOOSE x \in Free : TRUE IN
       g' = [g EXCEPT ![j] = [alive |-> TRUE, eval |-> g[i].eval, stage |-> "fn", id |-> FrameId(i), ops |-> 0, after |-> 0]]
    /\ UNCHANGED <<interpId, rootId, evalNo, phase, cancelled, defs>>

\* getFunc / genFunctionWrapper: the definition remembers the id of the frame it was made in
Define(i) ==
    /\ Runnable(i)
    /\ defs' = defs \cup {[eval |-> g[i].eval, id |-> FrameId(i)]}
    /\ UNCHANGED <<interpId, rootId, evalNo, phase, cancelled, g>>

\* the evaluating goroutine runs to completion: Eval returns normally
Finish(i) ==
    /\ phase = "busy" /\ Runnable(i) /\ g[i].eval = evalNo /\ evalNo \notin cancelled
    /\ g' = [g EXCEPT ![i].alive = FALSE]
    /\ phase' = "idle"
    /\ UNCHANGED <<interpId, rootId, evalNo, cancelled, defs>>

\* ctx.Done(): stop() increments interp.id; EvalWithContext returns ctx.Err()
Cancel ==
    /\ phase = "busy" /\ evalNo \notin cancelled
    /\ interpId' = interpId + 1
    /\ cancelled' = cancelled \cup {evalNo}
    /\ phase' = "idle"
    /\ UNCHANGED <<rootId, evalNo, g, defs>>

Next == \/ EvalStart \/ Cancel
        \/ \E i \in G : ExecuteStart(i) \/ RunInitOrMain(i) \/ Op(i) \/ Exit(i) \/ Go(i) \/ Define(i) \/ Finish(i)
Spec == Init /\ [][Next]_vars

TypeOK == /\ interpId \in 0..MaxEval /\ rootId \in 0..MaxEval /\ evalNo \in 0..MaxEval
          /\ cancelled \subseteq 1..MaxEval

(* C09: once the cancelled call has returned, every goroutine of that run        *)
(* performs at most one more operation.                                         *)
AtMostOneOp == \A i \in G : g[i].after <= 1

(* C10: a definition made by an evaluation that was NOT cancelled stays usable:  *)
(* whenever no evaluation is in progress, calling it must be able to execute,   *)
(* i.e. the frame id it carries is the interpreter's current id.                *)
DefinitionsSurvive ==
    phase = "idle" => \A d \in defs : d.eval \notin cancelled => d.id = interpId
===============================================================================
