SPECIFICATION Spec
CONSTANTS G = {1, 2, 3} MaxOps = 2 IdFirst = TRUE
INVARIANTS TypeOK NoOpAfterRelease
PROPERTIES AllExit
