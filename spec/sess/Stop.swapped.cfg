SPECIFICATION Spec
CONSTANTS G = {1, 2, 3} MaxOps = 2 IdFirst = FALSE
INVARIANTS TypeOK NoOpAfterRelease
