--------------------------------- MODULE Stop ---------------------------------
(* Mechanism-level model of the two statements of Interpreter.stop()           *)
(* (interp/interp.go) against goroutines blocked in channel operations.        *)
(*                                                                             *)
(* Cancellation rests on two cooperating mechanisms:                           *)
(*   - runCfg executes the next operation of a frame only while the run id of  *)
(*     the frame equals the interpreter's id (stop increments the id);         *)
(*   - a blocked channel operation also selects on interp.done (stop closes    *)
(*     it); when that case is taken the builtin returns nil, which ends the    *)
(*     loop of the CURRENT frame exactly as a return would.  What stops the    *)
(*     callers of that frame is the run id check of their own loops.           *)
(* stop() is two statements, so it is two actions here, in the order given by  *)
(* the constant IdFirst (TRUE: the code as it is).  The property: a goroutine  *)
(* whose blocked channel operation was released BY the cancellation executes   *)
(* no further operation - the cancelled operation was the one it had in        *)
(* flight (C09).  Checked as a design; verdicts never come from this module    *)
(* (DESIGN 2.3): its counterexample names the scenario the harness must run    *)
(* on the real interpreter (goroutines blocked in a callee whose caller has    *)
(* more to do, released while stop() is between its two statements).           *)
EXTENDS Naturals, FiniteSets

CONSTANTS G,        \* goroutines of the cancelled evaluation, all blocked in a channel operation
          MaxOps,   \* bound on the operations a released goroutine may go on to execute
          IdFirst   \* TRUE: atomic.AddUint64(&interp.id, 1) then close(interp.done)

VARIABLES id,       \* interp.id
          done,     \* interp.done is closed
          pc,       \* stop(): "idle" | "between" | "returned"
          g         \* goroutine -> [st, fid, woken, ops]
vars == <<id, done, pc, g>>

\* st: "own"    blocked in a channel operation of the goroutine's outermost frame
\*     "callee" blocked in a channel operation of a callee; the caller has more to execute
\*     "caller" back in the run loop of the caller (the callee's loop has ended)
\*     "exited"
Init == /\ id = 0 /\ done = FALSE /\ pc = "idle"
        /\ g \in [G -> {[st |-> s, fid |-> 0, woken |-> FALSE, ops |-> 0] : s \in {"own", "callee"}}]

Stop1 == /\ pc = "idle" /\ pc' = "between"
         /\ IF IdFirst THEN id' = id + 1 /\ UNCHANGED done ELSE done' = TRUE /\ UNCHANGED id
         /\ UNCHANGED g
Stop2 == /\ pc = "between" /\ pc' = "returned"
         /\ IF IdFirst THEN done' = TRUE /\ UNCHANGED id ELSE id' = id + 1 /\ UNCHANGED done
         /\ UNCHANGED g

\* the done case of the blocked operation is taken: the builtin returns nil, the frame's loop ends
Wake(i) == /\ done /\ g[i].st \in {"own", "callee"}
           /\ g' = [g EXCEPT ![i].st = IF g[i].st = "own" THEN "exited" ELSE "caller", ![i].woken = TRUE]
           /\ UNCHANGED <<id, done, pc>>

\* the loop condition of the caller: f.runid() == interp.runid()
Op(i)   == /\ g[i].st = "caller" /\ g[i].fid = id /\ g[i].ops < MaxOps
           /\ g' = [g EXCEPT ![i].ops = @ + 1]
           /\ UNCHANGED <<id, done, pc>>
Exit(i) == /\ g[i].st = "caller" /\ g[i].fid # id
           /\ g' = [g EXCEPT ![i].st = "exited"]
           /\ UNCHANGED <<id, done, pc>>

Next == Stop1 \/ Stop2 \/ \E i \in G : Wake(i) \/ Op(i) \/ Exit(i)
Spec == Init /\ [][Next]_vars /\ WF_vars(Next)

TypeOK == id \in 0..1 /\ done \in BOOLEAN /\ pc \in {"idle", "between", "returned"}

\* C09 for goroutines blocked in channel operations
NoOpAfterRelease == \A i \in G : g[i].woken => g[i].ops = 0
\* and every goroutine ends
AllExit == <>(\A i \in G : g[i].st = "exited")
===============================================================================
