SPECIFICATION Spec
INVARIANTS Monotone SliceWeaker IndexNotCount Emit
