------------------------------- MODULE CompLit -------------------------------
(* C12 - malformed composite literals are rejected before anything runs.        *)
(*                                                                             *)
(* The complete family of small array, slice, struct and map literals with the *)
(* verdict of the language specification ("Composite literals"):               *)
(*  - array and slice literals: an element without a key takes the index of    *)
(*    the previous element plus one (0 for the first), an element with a key   *)
(*    takes that index; two elements must not have the same index; for an      *)
(*    array [n]T every index must be below n (it is the INDEX that counts, not  *)
(*    the number of elements: [3]int{2: 1, 5} is out of range, [3]int{1: 7} is  *)
(*    not); [...]T takes its length from the largest index;                    *)
(*  - struct literals: either every element has a field name (each field at    *)
(*    most once, the name must be a field) or none has, and then there is one  *)
(*    element per field, or none at all;                                       *)
(*  - map literals: constant keys must not repeat.                             *)
(* Each literal is placed in every syntactic position of Places.  The module   *)
(* builds the Go text of the literal itself; the harness wraps it in a program *)
(* whose package initialisation and main start by printing a marker.          *)
EXTENDS Integers, Sequences, FiniteSets, TLC, Json

NoKey == -1
Keys  == NoKey..3
\* element sequences of length 0..3, each element with an optional key
Items == UNION {[1..n -> Keys] : n \in 0..3}

\* index of every element
RECURSIVE IdxFrom(_, _, _)
IdxFrom(items, i, prev) ==
    IF i > Len(items) THEN <<>>
    ELSE LET x == IF items[i] = NoKey THEN prev + 1 ELSE items[i] IN <<x>> \o IdxFrom(items, i + 1, x)
Indices(items) == IdxFrom(items, 1, -1)
NoDup(s) == \A i, j \in 1..Len(s) : i # j => s[i] # s[j]

SeqVerdict(kind, n, items) ==
    LET ix == Indices(items) IN
    IF ~NoDup(ix) THEN "err"
    ELSE IF kind = "array" /\ \E i \in 1..Len(ix) : ix[i] >= n THEN "err"
    ELSE "ok"

\* struct P{X, Y int}; element names: "" (positional), "X", "Y", "Z" (no such field)
Names == {"", "X", "Y", "Z"}
SItems == UNION {[1..n -> Names] : n \in 0..3}
StructVerdict(items) ==
    LET keyed == {i \in 1..Len(items) : items[i] # ""} IN
    IF Len(items) = 0 THEN "ok"
    ELSE IF keyed = {} THEN (IF Len(items) = 2 THEN "ok" ELSE "err")
    ELSE IF Cardinality(keyed) # Len(items) THEN "err"                 \* mixture of keyed and positional elements
    ELSE IF \E i \in keyed : items[i] = "Z" THEN "err"
    ELSE IF ~NoDup(items) THEN "err"
    ELSE "ok"

\* map[int]int{k: v, ...} with constant keys
MItems == UNION {[1..n -> 0..2] : n \in 0..3}
MapVerdict(items) == IF NoDup(items) THEN "ok" ELSE "err"

-------------------------------------------------------------------------------
(* Go text                                                                     *)
RECURSIVE Join(_, _)
Join(ss, sep) == IF ss = <<>> THEN "" ELSE IF Len(ss) = 1 THEN ss[1] ELSE ss[1] \o sep \o Join(Tail(ss), sep)
Val(i) == ToString(10 + i)
SeqText(kind, n, items) ==
    (CASE kind = "array" -> "[" \o ToString(n) \o "]int" [] kind = "slice" -> "[]int" [] OTHER -> "[...]int")
    \o "{" \o Join([i \in 1..Len(items) |-> IF items[i] = NoKey THEN Val(i) ELSE ToString(items[i]) \o ": " \o Val(i)], ", ") \o "}"
StructText(items) ==
    "P{" \o Join([i \in 1..Len(items) |-> IF items[i] = "" THEN Val(i) ELSE items[i] \o ": " \o Val(i)], ", ") \o "}"
MapText(items) ==
    "map[int]int{" \o Join([i \in 1..Len(items) |-> ToString(items[i]) \o ": " \o Val(i)], ", ") \o "}"

Places == {"define", "pkgvar", "arg", "return", "nested", "unused-func"}
Lits ==
       {[lit |-> SeqText("array", n, it), verdict |-> SeqVerdict("array", n, it), kind |-> "array"] : n \in 1..3, it \in Items}
  \cup {[lit |-> SeqText(kd, 0, it), verdict |-> SeqVerdict(kd, 0, it), kind |-> kd] : kd \in {"slice", "dots"}, it \in Items}
  \cup {[lit |-> StructText(it), verdict |-> StructVerdict(it), kind |-> "struct"] : it \in SItems}
  \cup {[lit |-> MapText(it), verdict |-> MapVerdict(it), kind |-> "map"] : it \in MItems}

VARIABLE case
Init == case \in {[ctx |-> "complit-" \o l.kind \o "/" \o p, a |-> l.lit, ak |-> l.kind, b |-> p, bk |-> "", verdict |-> l.verdict] : l \in Lits, p \in Places}
Next == UNCHANGED case
Spec == Init /\ [][Next]_case

\* sanity of the rules on the family: the verdict does not depend on the place; an array literal that is
\* accepted for length n is accepted for every greater length; whatever [n]T accepts, [...]T and []T accept
Monotone ==
    \A n \in 1..2 : \A it \in Items : SeqVerdict("array", n, it) = "ok" => SeqVerdict("array", n + 1, it) = "ok"
SliceWeaker ==
    \A n \in 1..3 : \A it \in Items : SeqVerdict("array", n, it) = "ok" => SeqVerdict("slice", 0, it) = "ok" /\ SeqVerdict("dots", 0, it) = "ok"
\* the case that tells the index from the element count
IndexNotCount == SeqVerdict("array", 3, <<2, NoKey>>) = "err" /\ SeqVerdict("array", 3, <<1>>) = "ok" /\ SeqVerdict("array", 2, <<NoKey, NoKey, NoKey>>) = "err"
Emit == PrintT(<<"BEH", ToJson(case)>>)
===============================================================================
