SPECIFICATION Spec
CONSTANTS ImportsRunInGta = TRUE
INVARIANTS RunsAll NoExecBeforeVerdict
