SPECIFICATION Spec
CONSTANTS ImportsRunInGta = FALSE
INVARIANTS RunsAll NoExecBeforeVerdict Emit
