------------------------------- MODULE Pipeline -------------------------------
(* C12, second half: "not a single statement of the program, package            *)
(* initialisation included, has executed" when Eval returns a static error.      *)
(*                                                                               *)
(* Mechanism-level model of the phases of Eval for a main package that imports   *)
(* source packages: parse, gta (global type analysis; it IMPORTS source packages *)
(* by running them), cfg (type checking happens here), exec.  One action per     *)
(* phase step; the property is the invariant NoExecBeforeVerdict.  The constant  *)
(* ImportsRunInGta selects the code as it is (TRUE) or a two-pass design that    *)
(* only compiles imports before the importer is checked (FALSE).                 *)
(* TLC enumerates the small programs (which packages exist, who imports whom,    *)
(* where the type error sits) and emits each with the output the property        *)
(* allows; the harness replays them on a MapFS.                                  *)
EXTENDS Naturals, Sequences, FiniteSets, TLC, Json

CONSTANTS ImportsRunInGta

Pkgs == {"p", "q"}
\* a program: which packages main imports (p may import q), and which unit has the type error
Programs ==
    { [mainImports |-> mi, pImportsQ |-> pq, err |-> e] :
        mi \in SUBSET Pkgs, pq \in BOOLEAN, e \in {"none", "main", "p", "q"} }

Reachable(pr) == pr.mainImports \cup (IF "p" \in pr.mainImports /\ pr.pImportsQ THEN {"q"} ELSE {})
WellFormed(pr) == pr.err \in {"none", "main"} \cup Reachable(pr)

VARIABLES prog, phase, ran, verdict
vars == <<prog, phase, ran, verdict>>

Init == prog \in {pr \in Programs : WellFormed(pr)} /\ phase = "parse" /\ ran = <<>> /\ verdict = "?"

\* the order in which the imports are visited (main's import declarations in source
\* order, p before q; a package's own imports first; each package once)
Visit(pr) ==
    LET viaP == IF "p" \in pr.mainImports THEN (IF pr.pImportsQ THEN <<"q", "p">> ELSE <<"p">>) ELSE <<>>
        q2   == IF "q" \in pr.mainImports /\ ~("p" \in pr.mainImports /\ pr.pImportsQ) THEN <<"q">> ELSE <<>>
    IN viaP \o q2
\* as the code is: an imported package runs as soon as its own compilation succeeded, so
\* everything visited before the unit with the type error has already run
RECURSIVE Before(_, _)
Before(seq, e) == IF seq = <<>> \/ Head(seq) = e THEN <<>> ELSE <<Head(seq)>> \o Before(Tail(seq), e)
RanBeforeError(pr) == IF pr.err = "none" THEN Visit(pr) ELSE Before(Visit(pr), pr.err)
\* initialisation order of the imported packages: dependencies first
Order(pr) == Visit(pr)

Parse == phase = "parse" /\ phase' = "gta" /\ UNCHANGED <<prog, ran, verdict>>
Gta ==
    /\ phase = "gta" /\ phase' = "cfg"
    /\ ran' = IF ImportsRunInGta THEN RanBeforeError(prog) ELSE <<>>
    /\ UNCHANGED <<prog, verdict>>
Cfg ==
    /\ phase = "cfg"
    /\ verdict' = IF prog.err = "none" THEN "ok" ELSE "err"
    /\ phase' = IF prog.err = "none" THEN "exec" ELSE "done"
    /\ UNCHANGED <<prog, ran>>
Exec ==
    /\ phase = "exec" /\ phase' = "done"
    /\ ran' = (IF ImportsRunInGta THEN ran ELSE Order(prog)) \o <<"main">>
    /\ UNCHANGED <<prog, verdict>>
Next == Parse \/ Gta \/ Cfg \/ Exec
Spec == Init /\ [][Next]_vars

\* the property: when the verdict is an error, nothing has run
NoExecBeforeVerdict == (phase = "done" /\ verdict = "err") => ran = <<>>
\* and a well-typed program runs its imports first, each once, then main
RunsAll == (phase = "done" /\ verdict = "ok") => ran = Order(prog) \o <<"main">>

\* what the PROPERTY allows as output, handed to the harness
Emit == phase = "done" =>
    PrintT(<<"BEH", ToJson([prog |-> prog, verdict |-> verdict,
                            expected |-> IF verdict = "err" THEN <<>> ELSE Order(prog) \o <<"main">>])>>)
===============================================================================
