SPECIFICATION Spec
INVARIANTS Algebra Emit
