------------------------------- MODULE TypeRules -------------------------------
(* C12 - static errors are rejected before anything runs.                       *)
(*                                                                               *)
(* A small universe of Go types and untyped constants, the relations of the      *)
(* language specification over it (identical, assignable, representable,         *)
(* convertible, comparable, ordered, implements), and the VERDICT ("ok", or      *)
(* "err" with the rule that is broken) of every syntactic context of the         *)
(* property's catalogue applied to every tuple of operand types.                 *)
(* TLC enumerates the complete context x type table (Init is the set of cases),  *)
(* checks the algebra of the relations, and hands every case with its verdict to *)
(* the harness, which renders it as a minimal program.  go/types validates the   *)
(* verdict on every case; the interpreter must reject exactly the "err" cases,    *)
(* without executing anything.                                                   *)
EXTENDS Naturals, Sequences, FiniteSets, TLC, Json

(* kinds: int float string bool struct ptr slice array map func chan rchan schan  *)
(*        iface ; untyped constants: uint_ (untyped integer) ufloat ustr ubool nil *)
T(n, k, named, under) == [n |-> n, k |-> k, named |-> named, u |-> under]

Typed ==
    { T("int", "int", TRUE, "int"), T("int8", "int", TRUE, "int8"), T("uint", "int", TRUE, "uint"),
      T("float64", "float", TRUE, "float64"), T("string", "string", TRUE, "string"), T("bool", "bool", TRUE, "bool"),
      T("MyInt", "int", TRUE, "int"),
      T("S", "struct", TRUE, "struct{A int}"), T("*S", "ptr", FALSE, "*S"),
      T("[]int", "slice", FALSE, "[]int"), T("[2]int", "array", FALSE, "[2]int"),
      T("map[string]int", "map", FALSE, "map[string]int"), T("func(int) int", "func", FALSE, "func(int) int"),
      T("chan int", "chan", FALSE, "chan int"), T("<-chan int", "rchan", FALSE, "<-chan int"),
      T("chan<- int", "schan", FALSE, "chan<- int"),
      T("I", "iface", TRUE, "interface{M()}"), T("interface{}", "iface", FALSE, "interface{}"),
      T("TI", "struct", TRUE, "struct{B int}"),
      \* defined types over composite types, one of them through a second definition (type Sink2 Sink):
      \* the rules speak of the underlying type, whatever the depth of the definition
      T("Sink", "schan", TRUE, "chan<- int"), T("Sink2", "schan", TRUE, "chan<- int"), T("Src2", "rchan", TRUE, "<-chan int"),
      T("MySl", "slice", TRUE, "[]int"), T("MyMap", "map", TRUE, "map[string]int"), T("PS", "ptr", TRUE, "*S") }

(* untyped constants: the literal stands for its value class                      *)
Untyped ==
    { T("1", "uint_", FALSE, "small"), T("200", "uint_", FALSE, "200"), T("1<<70", "uint_", FALSE, "huge"),
      T("-1", "uint_", FALSE, "neg"),
      T("1.5", "ufloat", FALSE, "frac"), T("2.0", "ufloat", FALSE, "integral"),
      T("\"s\"", "ustr", FALSE, "s"), T("true", "ubool", FALSE, "true"), T("nil", "nil", FALSE, "nil") }

Operands == Typed \cup Untyped
IsUntyped(t) == t.k \in {"uint_", "ufloat", "ustr", "ubool", "nil"}
IsConst(t)   == t.k \in {"uint_", "ufloat", "ustr", "ubool"}
Numeric(t)   == t.k \in {"int", "float", "uint_", "ufloat"}
IsIface(t)   == t.k = "iface"
IsChan(t)    == t.k \in {"chan", "rchan", "schan"}
Nilable(t)   == t.k \in {"ptr", "slice", "map", "func", "chan", "rchan", "schan", "iface"}

Identical(a, b) == a.n = b.n

\* method sets: TI (value receiver M) and *TI implement I; everything implements interface{}
Implements(v, i) ==
    /\ IsIface(i)
    /\ \/ i.n = "interface{}"
       \/ (i.n = "I" /\ v.n \in {"TI", "I"})

\* an untyped constant is representable by a value of type t
Representable(c, t) ==
    CASE t.k = "iface" -> \* the constant takes its default type first
             (t.n = "interface{}" /\ c.k # "nil" /\ c.u # "huge")
      [] c.k = "uint_" ->
             \/ (t.k = "float")
             \/ (t.k = "int" /\ CASE c.u = "small" -> TRUE
                                  [] c.u = "200"   -> t.n # "int8"
                                  [] c.u = "neg"   -> t.n # "uint"
                                  [] c.u = "huge"  -> FALSE)
      [] c.k = "ufloat" -> t.k = "float" \/ (t.k = "int" /\ c.u = "integral")
      [] c.k = "ustr"   -> t.k = "string"
      [] c.k = "ubool"  -> t.k = "bool"
      [] OTHER -> FALSE

\* Go spec, "Assignability": a value x of type V is assignable to T
AssignableTo(v, t) ==
    IF v.k = "nil" THEN ~IsUntyped(t) /\ Nilable(t)
    ELSE IF IsConst(v) THEN ~IsUntyped(t) /\ Representable(v, t)
    ELSE \/ Identical(v, t)
         \/ (v.u = t.u /\ (~v.named \/ ~t.named) /\ ~IsIface(v) /\ ~IsIface(t))
         \/ (IsIface(t) /\ Implements(v, t))
         \/ (v.k = "chan" /\ t.k \in {"rchan", "schan"})

AssignReason(v, t) ==
    IF AssignableTo(v, t) THEN "ok"
    ELSE IF IsConst(v) /\ Numeric(v) /\ Numeric(t) THEN "constant not representable"
    ELSE IF IsIface(t) THEN "does not implement"
    ELSE IF IsChan(v) /\ IsChan(t) THEN "channel direction"
    ELSE "not assignable"

\* default type of an untyped constant
Default(c) ==
    CASE c.k = "uint_"  -> CHOOSE t \in Typed : t.n = "int"
      [] c.k = "ufloat" -> CHOOSE t \in Typed : t.n = "float64"
      [] c.k = "ustr"   -> CHOOSE t \in Typed : t.n = "string"
      [] c.k = "ubool"  -> CHOOSE t \in Typed : t.n = "bool"

Comparable(t) == t.k \notin {"slice", "map", "func"}
Ordered(t)    == t.k \in {"int", "float", "string", "uint_", "ufloat", "ustr"}

\* Go spec, "Conversions" T(x), restricted to this universe
ConvertibleTo(v, t) ==
    IF IsUntyped(t) THEN FALSE
    ELSE IF v.k = "nil" THEN Nilable(t)
    ELSE IF IsConst(v) THEN
         \/ Representable(v, t)
         \/ (v.k = "uint_" /\ t.k = "string")                                  \* string(integer constant)
    ELSE \/ AssignableTo(v, t)
         \/ (v.u = t.u /\ ~IsIface(v) /\ ~IsIface(t))                           \* identical underlying types
         \/ (v.k \in {"int", "float"} /\ t.k \in {"int", "float"})              \* numeric
         \/ (v.k = "int" /\ t.k = "string")                                     \* string(int)
         \/ (v.k = "chan" /\ t.k \in {"rchan", "schan"})
         \/ (v.u = "[]int" /\ t.n = "[2]int")                                   \* slice to array (go1.20), also from a defined slice type

-------------------------------------------------------------------------------
(* Contexts.  A case is [ctx, a, b]: the context and its (up to) two operand      *)
(* types; Verdict gives "ok" or the broken rule.                                  *)
\* "tuple-*": the pair under test is NOT the last one of a tuple assignment / a multi-variable
\* declaration / a multi-value return / an argument list (a well-typed pair follows it): every
\* pair is checked, whatever its position
AssignCtx == {"assign", "vardecl", "arg", "return", "slice-elem", "map-value", "struct-field", "send-value",
              "tuple-assign", "tuple-vardecl", "tuple-return", "tuple-arg", "tuple-assign-mid"}

\* both operands of a binary operator, after the conversion of untyped constants
BinOK(op, a, b) ==
    LET bothU == IsUntyped(a) /\ IsUntyped(b)
        ta == IF IsConst(a) /\ ~IsUntyped(b) THEN b ELSE a      \* the constant takes the other's type
        tb == IF IsConst(b) /\ ~IsUntyped(a) THEN a ELSE b
        conv == /\ (IsConst(a) /\ ~IsUntyped(b)) => Representable(a, b)
                /\ (IsConst(b) /\ ~IsUntyped(a)) => Representable(b, a)
        same == IF bothU THEN (Numeric(a) /\ Numeric(b)) \/ (a.k = b.k) ELSE Identical(ta, tb)
    IN
    CASE op = "+"  -> a.k # "nil" /\ b.k # "nil" /\ conv /\ same /\ (Numeric(ta) \/ ta.k \in {"string", "ustr"})
      [] op = "<"  -> a.k # "nil" /\ b.k # "nil" /\ conv /\ same /\ Ordered(ta)
      [] op = "&&" -> conv /\ same /\ ta.k \in {"bool", "ubool"}
      [] op = "==" ->
            IF a.k = "nil" /\ b.k = "nil" THEN FALSE
            ELSE IF a.k = "nil" THEN Nilable(b)
            ELSE IF b.k = "nil" THEN Nilable(a)
            ELSE IF bothU THEN (Numeric(a) /\ Numeric(b)) \/ (a.k = b.k)
            ELSE /\ (AssignableTo(a, b) \/ AssignableTo(b, a))
                 /\ Comparable(ta) /\ Comparable(tb)

Verdict(c) ==
    LET a == c.a  b == c.b IN
    CASE c.ctx \in AssignCtx -> AssignReason(b, a)                        \* b is used where a is expected
      [] c.ctx \in {"+", "<", "&&", "=="} -> IF BinOK(c.ctx, a, b) THEN "ok" ELSE "operator not defined or mismatched operand types"
      [] c.ctx \in {"if-cond", "for-cond"} -> IF b.k \in {"bool", "ubool"} THEN "ok" ELSE "non-boolean condition"
      [] c.ctx = "convert" -> IF ConvertibleTo(b, a) THEN "ok" ELSE "invalid conversion"
      [] c.ctx = "send" -> IF a.k \in {"chan", "schan"} THEN "ok" ELSE IF a.k = "rchan" THEN "channel direction" ELSE "not a channel"
      [] c.ctx = "recv" -> IF a.k \in {"chan", "rchan"} THEN "ok" ELSE IF a.k = "schan" THEN "channel direction" ELSE "not a channel"
      [] c.ctx = "close" -> IF a.k \in {"chan", "schan"} THEN "ok" ELSE IF a.k = "rchan" THEN "channel direction" ELSE "invalid builtin argument"
      [] c.ctx = "len" -> IF a.k \in {"string", "slice", "array", "map", "chan", "rchan", "schan"} THEN "ok" ELSE "invalid builtin argument"
      [] c.ctx = "cap" -> IF a.k \in {"slice", "array", "chan", "rchan", "schan"} THEN "ok" ELSE "invalid builtin argument"
      \* min(x, y), max(x, y) (go1.21): valid when x + y is valid for ordered operands (numeric or string; there is
      \* no complex type in this universe); clear(x) (go1.21): x is a map or a slice
      [] c.ctx \in {"min", "max"} -> IF BinOK("+", a, b) THEN "ok" ELSE "invalid builtin argument"
      [] c.ctx = "clear" -> IF a.k \in {"map", "slice"} THEN "ok" ELSE "invalid builtin argument"
      [] c.ctx = "append" -> IF AssignableTo(b, CHOOSE t \in Typed : t.n = "int") THEN "ok" ELSE AssignReason(b, CHOOSE t \in Typed : t.n = "int")
      [] c.ctx = "index" -> IF a.k \in {"string", "slice", "array"} THEN "ok" ELSE IF a.k = "map" THEN "map key type" ELSE "not indexable"
      [] c.ctx = "deref" -> IF a.k = "ptr" THEN "ok" ELSE "invalid indirect"
      [] c.ctx = "field-A" -> IF a.n \in {"S", "*S", "PS"} THEN "ok" ELSE "undefined field"      \* x.f through a defined pointer type too
      [] c.ctx = "method-M" -> IF a.n \in {"TI", "I"} THEN "ok" ELSE "undefined method"
      [] c.ctx = "neg" -> IF a.k \in {"int", "float"} THEN "ok" ELSE "operator not defined"
      [] c.ctx = "not" -> IF a.k = "bool" THEN "ok" ELSE "operator not defined"
      [] c.ctx = "range" -> IF a.k \in {"int", "string", "slice", "array", "map", "chan", "rchan"} THEN "ok" ELSE "cannot range"
      [] c.ctx = "assert" -> \* b.(a): b must be an interface; a concrete a must implement it
            IF ~IsIface(b) THEN "not an interface"
            ELSE IF IsIface(a) \/ Implements(a, b) THEN "ok" ELSE "impossible type assertion"
      [] c.ctx = "arity" -> IF a.n = "ok" THEN "ok" ELSE "wrong count"
      [] c.ctx = "undefined" -> IF a.n = "ok" THEN "ok" ELSE "undefined"

Int == CHOOSE t \in Typed : t.n = "int"
Unary == {"send", "recv", "close", "len", "cap", "clear", "index", "deref", "field-A", "method-M", "neg", "not", "range"}
Fixed(ctx, names) == {[ctx |-> ctx, a |-> T(n, "fixed", FALSE, n), b |-> Int] : n \in names}

Cases ==
       {[ctx |-> x, a |-> a, b |-> b] : x \in AssignCtx \cup {"convert"}, a \in Typed, b \in Operands}
  \cup {[ctx |-> x, a |-> a, b |-> b] : x \in {"+", "<", "&&", "==", "min", "max"}, a \in Operands, b \in Operands}
  \cup {[ctx |-> x, a |-> Int, b |-> b] : x \in {"if-cond", "for-cond", "append"}, b \in Operands \ {T("nil", "nil", FALSE, "nil")}}
  \cup {[ctx |-> x, a |-> a, b |-> Int] : x \in Unary, a \in Typed}
  \cup {[ctx |-> "assert", a |-> a, b |-> b] : a \in Typed, b \in Typed}
  \cup Fixed("arity", {"ok", "call-too-few", "call-too-many", "return-too-few", "return-too-many", "assign-count", "multi-value-in-single-context"})
  \cup Fixed("undefined", {"ok", "variable", "function", "type", "package-member", "field", "method"})

VARIABLES case, verdict
vars == <<case, verdict>>
Init == case \in Cases /\ verdict = Verdict(case)
Spec == Init /\ [][UNCHANGED vars]_vars

-------------------------------------------------------------------------------
(* Algebra of the relations, checked by TLC over the whole universe.             *)
AssumeAlgebra ==
    /\ \A a, b \in Typed : Identical(a, b) => AssignableTo(a, b)
    /\ \A a, b \in Typed : AssignableTo(a, b) => ConvertibleTo(a, b)
    /\ \A a \in Typed, i \in {t \in Typed : IsIface(t)} : AssignableTo(a, i) <=> Implements(a, i)
    /\ \A c \in {u \in Untyped : IsConst(u)}, t \in Typed : (Representable(c, t) /\ ~IsIface(t)) => Representable(c, t)
    /\ \A c \in {u \in Untyped : IsConst(u)} : Representable(c, Default(c)) \/ c.u = "huge"
    /\ \A a, b \in Operands : BinOK("==", a, b) = BinOK("==", b, a)
    /\ \A a, b \in Operands : BinOK("+", a, b) = BinOK("+", b, a)
Algebra == AssumeAlgebra

Emit == PrintT(<<"BEH", ToJson([ctx |-> case.ctx, a |-> case.a.n, ak |-> case.a.k, b |-> case.b.n, bk |-> case.b.k, verdict |-> verdict])>>)
===============================================================================
